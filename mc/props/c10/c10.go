package c10

import (
	"bytes"
	"fmt"
	"sort"
	"strings"
	"time"

	gx509 "github.com/tjfoc/gmsm/x509"

	"verif/mc/harness"
)

func pool(cs []*cert) *gx509.CertPool {
	p := gx509.NewCertPool()
	for _, c := range cs {
		p.AddCert(c.x)
	}
	return p
}

func usageName(u []gx509.ExtKeyUsage) string {
	if u == nil {
		return "default"
	}
	s := ""
	for _, e := range u {
		switch e {
		case gx509.ExtKeyUsageAny:
			s += "any,"
		case gx509.ExtKeyUsageServerAuth:
			s += "serverAuth,"
		case gx509.ExtKeyUsageClientAuth:
			s += "clientAuth,"
		case gx509.ExtKeyUsageCodeSigning:
			s += "codeSigning,"
		case gx509.ExtKeyUsageEmailProtection:
			s += "emailProtection,"
		case gx509.ExtKeyUsageMicrosoftServerGatedCrypto:
			s += "msSGC,"
		default:
			s += fmt.Sprint(int(e)) + ","
		}
	}
	return s
}

// check runs one Verify call and compares with the reference.
func check(c *harness.Ctx, u *universe, leaf *cert, roots, inters []*cert, q query, kind string) {
	c.Add("transitions", 1)
	c.Add("executions", 1)
	label := fmt.Sprintf("leaf=%s roots=%s inters=%s year=%d dns=%q usages=%s", leaf.d.id, ids(roots), ids(inters), q.year, q.dns, usageName(q.usages))
	c.DistinctS("states", ids(roots)+ids(inters)+leaf.d.id)
	want := refAccept(leaf, roots, inters, q)
	opts := gx509.VerifyOptions{DNSName: q.dns, Roots: pool(roots), Intermediates: pool(inters), CurrentTime: time.Date(q.year, 1, 1, 0, 0, 0, 0, time.UTC), KeyUsages: q.usages}
	var chains [][]*gx509.Certificate
	var err error
	if c.Guard("verify-panic:"+kind, "Verify "+label, nil, func() { chains, err = leaf.x.Verify(opts) }) {
		return
	}
	if want != refAcceptN(leaf, roots, inters, q, true) {
		// a CA certificate with an extended-key-usage extension decides: the statement restricts the
		// leaf only, the library (like Go) nests usages through the chain
		c.Add("not-judged-ca-extended-key-usage", 1)
		return
	}
	if sgcAmbiguous(leaf.d, q.usages) {
		c.Add("not-judged-server-gated-crypto", 1)
		return
	}
	got := err == nil && len(chains) > 0
	if err == nil && len(chains) == 0 {
		c.Violate("verify-no-error-no-chain:"+kind, "Verify returned neither a chain nor an error: "+label, nil, nil)
	}
	c.DistinctS("outcomes", fmt.Sprintf("%v/%v", got, want))
	if got != want && want && kind != "reorder" {
		// Is the rejection an artefact of the insertion order of the pools? Try every order.
		for _, rp := range permutations(roots) {
			for _, ip := range permutations(inters) {
				o := opts
				o.Roots, o.Intermediates = pool(rp), pool(ip)
				if ch, e := leaf.x.Verify(o); e == nil && len(ch) > 0 {
					mr, mi := minimise(leaf, roots, inters, q, opts)
					c.Violate("order-dependent-reject:"+canonical(leaf, mr, mi), fmt.Sprintf("Verify fails for pools inserted as roots=%s inters=%s but succeeds for roots=%s inters=%s; the reference finds a valid chain (%s)", ids(roots), ids(inters), ids(rp), ids(ip), label), nil, label)
					return
				}
			}
		}
	}
	if got != want {
		dir := "accepts-what-reference-rejects"
		if want {
			dir = "rejects-what-reference-accepts"
		}
		c.Violate(fmt.Sprintf("verify-%s:%s:%s", dir, kind, classify(leaf, roots, inters, q)), fmt.Sprintf("Verify %s (err=%v, %d chains) but the reference path validator %s: %s", map[bool]string{true: "returned a chain", false: "failed"}[got], err, len(chains), map[bool]string{true: "finds a valid chain", false: "finds none"}[want], label), nil, label)
		return
	}
	for _, ch := range chains {
		var cc []*cert
		for _, x := range ch {
			var m *cert
			for _, cand := range u.byID {
				if bytes.Equal(cand.x.Raw, x.Raw) {
					m = cand
					break
				}
			}
			if m == nil {
				c.Violate("verify-chain-foreign-cert:"+kind, "a returned chain contains a certificate that was not supplied: "+label, nil, nil)
				return
			}
			cc = append(cc, m)
		}
		if why := chainOK(cc, leaf, roots, inters, q); why != "" {
			c.Violate("verify-bad-chain:"+kind, fmt.Sprintf("Verify returned chain %s which violates the statement (%s): %s", ids(cc), why, label), nil, label)
			return
		}
	}
	if c.WantSample() && len(inters) > 0 {
		c.Sample(fmt.Sprintf("%s -> accepted=%v", label, got))
	}
}

// classify names the feature of the topology that is most likely responsible (for stable keys).
func classify(leaf *cert, roots, inters []*cert, q query) string {
	return fmt.Sprintf("leaf=%s|roots=%s|inters=%s", leaf.d.id, ids(roots), ids(inters))
}

// minimise greedily removes certificates from the pools while the reference still accepts and
// Verify (pools inserted in the same relative order) still rejects: the smallest failing topology
// names the finding.
func minimise(leaf *cert, roots, inters []*cert, q query, opts gx509.VerifyOptions) ([]*cert, []*cert) {
	fails := func(rs, is []*cert) bool {
		if !refAccept(leaf, rs, is, q) {
			return false
		}
		o := opts
		o.Roots, o.Intermediates = pool(rs), pool(is)
		ch, e := leaf.x.Verify(o)
		return !(e == nil && len(ch) > 0)
	}
	without := func(cs []*cert, i int) []*cert { return append(append([]*cert{}, cs[:i]...), cs[i+1:]...) }
	for changed := true; changed; {
		changed = false
		for i := range roots {
			if r := without(roots, i); fails(r, inters) {
				roots, changed = r, true
				break
			}
		}
		for i := range inters {
			if n := without(inters, i); fails(roots, n) {
				inters, changed = n, true
				break
			}
		}
	}
	return roots, inters
}

// canonical names a topology independently of insertion order.
func canonical(leaf *cert, roots, inters []*cert) string {
	srt := func(cs []*cert) string {
		var n []string
		for _, c := range cs {
			n = append(n, c.d.id)
		}
		sort.Strings(n)
		return "[" + strings.Join(n, " ") + "]"
	}
	return "leaf=" + leaf.d.id + "|roots=" + srt(roots) + "|inters=" + srt(inters)
}

func plain(cs []*cert) []*cert {
	var out []*cert
	for _, c := range cs {
		if len(c.d.permit) == 0 {
			out = append(out, c)
		}
	}
	return out
}

// subsets of size <= k, in a deterministic order.
func subsets(cs []*cert, k int) [][]*cert {
	out := [][]*cert{{}}
	var rec func(start int, cur []*cert)
	rec = func(start int, cur []*cert) {
		if len(cur) == k {
			return
		}
		for i := start; i < len(cs); i++ {
			n := append(append([]*cert{}, cur...), cs[i])
			out = append(out, n)
			rec(i+1, n)
		}
	}
	rec(0, nil)
	return out
}

func reversed(cs []*cert) []*cert {
	o := make([]*cert, len(cs))
	for i, c := range cs {
		o[len(cs)-1-i] = c
	}
	return o
}

func permutations(cs []*cert) [][]*cert {
	if len(cs) <= 1 {
		return [][]*cert{cs}
	}
	var out [][]*cert
	for i := range cs {
		rest := append(append([]*cert{}, cs[:i]...), cs[i+1:]...)
		for _, p := range permutations(rest) {
			out = append(out, append([]*cert{cs[i]}, p...))
		}
	}
	return out
}

func structureUnit(part, parts, maxI int, allOrders bool) harness.Unit {
	return harness.Unit{Name: fmt.Sprintf("structure/|I|<=%d/part%d", maxI, part), Run: func(c *harness.Ctx) {
		u, err := buildUniverse()
		if err != nil {
			c.Violate("setup", err.Error(), nil, nil)
			return
		}
		rootSets := subsets(plain(u.roots), 2)
		interSets := subsets(plain(u.inters), maxI)
		var leaves []*cert
		for _, id := range []string{"L-byR1", "L-byA", "L-byB", "L-byC", "L-byAalt", "L-byA-forged"} {
			leaves = append(leaves, u.byID[id])
		}
		q := query{year: 2020}
		n := 0
		for _, rs := range rootSets {
			for _, is := range interSets {
				n++
				if n%parts != part {
					continue
				}
				for _, l := range leaves {
					if !connectable(l, rs, is) {
						c.Add("skipped_unconnectable", 1)
						continue
					}
					if allOrders && len(is) <= 3 {
						for _, p := range permutations(is) {
							check(c, u, l, rs, p, q, "structure")
						}
						if len(rs) == 2 {
							check(c, u, l, reversed(rs), is, q, "structure")
						}
					} else {
						check(c, u, l, rs, is, q, "structure")
						if len(is) > 1 {
							check(c, u, l, rs, reversed(is), q, "structure")
						}
						if len(rs) > 1 {
							check(c, u, l, reversed(rs), is, q, "structure")
						}
					}
				}
			}
		}
	}}
}

// connectable prunes topologies in which no supplied certificate even carries the leaf's issuer
// name (Verify and the reference both trivially reject; one representative is kept elsewhere).
func connectable(l *cert, rs, is []*cert) bool {
	for _, c := range append(append([]*cert{}, rs...), is...) {
		if c.d.subject == l.d.issuer {
			return true
		}
	}
	return false
}

var dnsAlphabet = []string{"", "www.example.test", "WWW.EXAMPLE.TEST", "www.example.test.", "foo.example.test", "a.b.example.test", "example.test", "other.test", "10.0.0.1", "[10.0.0.1]", "10.0.0.2", "[2001:db8::1]", "alt.example.test", "wwwXexample.test",
	// names that only a Unicode-aware comparison would equate with www.example.test (long s, Kelvin sign do not occur in ASCII host names)
	"www.example.te\u017ft", "WWW.EXAMPLE.TE\u017fT", "www.e\u212aample.test"}

var usageAlphabet = [][]gx509.ExtKeyUsage{nil, {gx509.ExtKeyUsageClientAuth}, {gx509.ExtKeyUsageAny}, {gx509.ExtKeyUsageServerAuth, gx509.ExtKeyUsageClientAuth}, {gx509.ExtKeyUsageCodeSigning},
	{gx509.ExtKeyUsageEmailProtection}, {gx509.ExtKeyUsageMicrosoftServerGatedCrypto}, {gx509.ExtKeyUsageEmailProtection, gx509.ExtKeyUsageCodeSigning}}

// caEKUUnit: CA certificates that carry an extended-key-usage extension, next to twins that do not
// (same subject and key: as trust anchor, as intermediate, cross-signed by another root). Every
// subset of 3 roots x every subset of 4 intermediates, in both insertion orders, x 4 leaves x the
// usage alphabet. Where a chain exists whose CAs all allow the usage the library must find it even
// if a shorter chain through a restricted CA exists too.
func caEKUUnit() harness.Unit {
	return harness.Unit{Name: "ca-extended-key-usage", Run: func(c *harness.Ctx) {
		u, err := buildUniverse()
		if err != nil {
			c.Violate("setup", err.Error(), nil, nil)
			return
		}
		get := func(ids []string, mask int, rev bool) []*cert {
			var o []*cert
			for i, id := range ids {
				if mask&(1<<uint(i)) != 0 {
					o = append(o, u.byID[id])
				}
			}
			if rev {
				for i, j := 0, len(o)-1; i < j; i, j = i+1, j-1 {
					o[i], o[j] = o[j], o[i]
				}
			}
			return o
		}
		rootIDs := []string{"R1", "R1-clientAuthEKU", "R2"}
		interIDs := []string{"A", "A-clientAuthEKU", "A-byR2", "X-R1-as-intermediate"}
		for rm := 1; rm < 1<<uint(len(rootIDs)); rm++ {
			for im := 0; im < 1<<uint(len(interIDs)); im++ {
				for _, rev := range []bool{false, true} {
					for _, lid := range []string{"L-byR1", "L-byA", "L-byA-clientAuth", "L-byA-serverAuth"} {
						for _, us := range usageAlphabet {
							check(c, u, u.byID[lid], get(rootIDs, rm, rev), get(interIDs, im, rev), query{2020, "", us}, "ca-eku")
						}
					}
				}
			}
		}
		c.Sample("roots from {R1, R1 with clientAuth EKU, R2} x intermediates from {A, A with clientAuth EKU, A by R2, R1 cross-signed by R2} x both insertion orders x 4 leaves x 8 requested usage sets")
	}}
}

func leafQueryUnit(pi int) harness.Unit {
	return harness.Unit{Name: fmt.Sprintf("leaf-x-query/pool%d", pi), Run: func(c *harness.Ctx) {
		u, err := buildUniverse()
		if err != nil {
			c.Violate("setup", err.Error(), nil, nil)
			return
		}
		get := func(ids ...string) []*cert {
			var o []*cert
			for _, id := range ids {
				o = append(o, u.byID[id])
			}
			return o
		}
		pools := [][2][]*cert{
			{get("R1"), get("A")},
			{get("R1", "R2"), get("A", "A-byR2")},
			{get("R1"), get("A", "B", "C")},
			{get("R1-notyet"), get("A-notyet", "A")},
			{get("R1-expired", "R1"), get("A-expired")},
		}
		p := pools[pi]
		for _, l := range u.leaves {
			for _, y := range []int{2020, 2017, 2025, 2035} {
				for _, dn := range dnsAlphabet {
					for _, us := range usageAlphabet {
						check(c, u, l, p[0], p[1], query{y, dn, us}, "leaf-query")
					}
				}
			}
		}
	}}
}

func constraintUnit() harness.Unit {
	return harness.Unit{Name: "name-constraints", Run: func(c *harness.Ctx) {
		u, err := buildUniverse()
		if err != nil {
			c.Violate("setup", err.Error(), nil, nil)
			return
		}
		var rs, is []*cert
		for _, r := range u.roots {
			if r.d.id == "R1" || len(r.d.permit) > 0 {
				rs = append(rs, r)
			}
		}
		for _, i := range u.inters {
			if i.d.id == "A" || len(i.d.permit) > 0 {
				is = append(is, i)
			}
		}
		for _, r := range rs {
			for _, i := range is {
				for _, lid := range []string{"L-byA", "L-byA-wildcard", "L-byA-dns+ip"} {
					for _, dn := range dnsAlphabet[1:] {
						check(c, u, u.byID[lid], []*cert{r}, []*cert{i}, query{2020, dn, nil}, "name-constraint")
					}
				}
			}
		}
	}}
}

func leafAsRootUnit() harness.Unit {
	return harness.Unit{Name: "leaf-in-root-pool+unconnectable", Run: func(c *harness.Ctx) {
		u, err := buildUniverse()
		if err != nil {
			c.Violate("setup", err.Error(), nil, nil)
			return
		}
		for _, l := range u.leaves {
			for _, y := range []int{2020, 2035} {
				for _, dn := range []string{"", "www.example.test", "other.test"} {
					check(c, u, l, []*cert{l}, nil, query{y, dn, nil}, "leaf-is-root")
					check(c, u, l, []*cert{u.byID["R2"], l}, []*cert{u.byID["A"]}, query{y, dn, nil}, "leaf-is-root")
					check(c, u, l, []*cert{u.byID["R2"]}, []*cert{u.byID["C"]}, query{y, dn, nil}, "unconnectable")
					check(c, u, l, nil, nil, query{y, dn, nil}, "empty-pools")
				}
			}
		}
		// a root verified as a leaf, an intermediate verified as a leaf
		for _, id := range []string{"R1", "A", "B"} {
			x := u.byID[id]
			check(c, u, x, []*cert{u.byID["R1"]}, []*cert{u.byID["A"], u.byID["B"]}, query{2020, "", []gx509.ExtKeyUsage{gx509.ExtKeyUsageAny}}, "ca-as-leaf")
		}
	}}
}

// boundaryTimeUnit: verification times at and around the first and last instant of a validity period,
// with nanosecond, millisecond and second offsets. A certificate is valid from NotBefore to NotAfter
// inclusive; the chain leaf <- A <- R1 is valid when all three are. Each position of the chain in turn
// is the one whose period ends (or begins) at the boundary: the others are valid throughout.
func boundaryTimeUnit() harness.Unit {
	return harness.Unit{Name: "validity-boundaries", Run: func(c *harness.Ctx) {
		u, err := buildUniverse()
		if err != nil {
			c.Violate("setup", err.Error(), nil, nil)
			return
		}
		wide := func(d *desc) { d.nb, d.na = 2000, 2050 }
		mk := func(d desc) *cert {
			x, err := build(d)
			if err != nil {
				c.Violate("setup", err.Error(), nil, nil)
				return nil
			}
			return x
		}
		root, inter, leaf := u.byID["R1"], u.byID["A"], u.byID["L-byA"]
		rootW, interW, leafW := mk(root.d.with(wide).with(func(d *desc) { d.id = "R1-wide" })), mk(inter.d.with(wide).with(func(d *desc) { d.id = "A-wide" })), mk(leaf.d.with(wide).with(func(d *desc) { d.id = "L-wide" }))
		if rootW == nil || interW == nil || leafW == nil {
			return
		}
		chains := []struct {
			what    string
			l, i, r *cert
			narrow  *cert
		}{{"the leaf", leaf, interW, rootW, leaf}, {"the intermediate", leafW, inter, rootW, inter}, {"the root", leafW, interW, root, root}, {"all three", leaf, inter, root, leaf}}
		offs := []time.Duration{-time.Second, -999 * time.Millisecond, -time.Millisecond, -time.Nanosecond, 0, time.Nanosecond, time.Millisecond, 500 * time.Millisecond, 999 * time.Millisecond, time.Second}
		for _, ch := range chains {
			for _, end := range []bool{false, true} {
				edge := ch.narrow.x.NotBefore
				if end {
					edge = ch.narrow.x.NotAfter
				}
				for _, off := range offs {
					t := edge.Add(off)
					want := !t.Before(ch.narrow.x.NotBefore) && !t.After(ch.narrow.x.NotAfter)
					opts := gx509.VerifyOptions{Roots: pool([]*cert{ch.r}), Intermediates: pool([]*cert{ch.i}), CurrentTime: t, KeyUsages: []gx509.ExtKeyUsage{gx509.ExtKeyUsageAny}}
					var chainsOut [][]*gx509.Certificate
					var verr error
					tag := fmt.Sprintf("chain L <- A <- R1 where %s has the narrow validity period; verification time = %s %v", ch.what, map[bool]string{false: "NotBefore", true: "NotAfter"}[end], off)
					c.Add("executions", 1)
					c.Add("transitions", 1)
					c.DistinctS("states", tag)
					if c.Guard("verify-panic:validity-boundary", tag, nil, func() { chainsOut, verr = ch.l.x.Verify(opts) }) {
						continue
					}
					got := verr == nil && len(chainsOut) > 0
					if got != want {
						c.Violate(fmt.Sprintf("validity-boundary:%s:%v:%v", ch.what, end, off), fmt.Sprintf("[%s] Verify accepts=%v (err %v), the period [%v, %v] says %v", tag, got, verr, ch.narrow.x.NotBefore, ch.narrow.x.NotAfter, want), nil, nil)
					}
				}
			}
		}
		c.Sample("4 chains (narrow period on the leaf / intermediate / root / all) x first and last instant x 10 offsets from -1 s to +1 s")
		// validity bounds and verification times far from the present: periods that never end
		// (9999), lie centuries ahead or behind; each position of the chain in turn carries the period,
		// the other two are valid from 1000 to 9999
		ever := func(d *desc) { d.nb, d.na = 1000, 9999 }
		rootE, interE, leafE := mk(root.d.with(ever).with(func(d *desc) { d.id = "R1-ever" })), mk(inter.d.with(ever).with(func(d *desc) { d.id = "A-ever" })), mk(leaf.d.with(ever).with(func(d *desc) { d.id = "L-ever" }))
		if rootE == nil || interE == nil || leafE == nil {
			return
		}
		for _, per := range [][2]int{{2000, 9999}, {2300, 2700}, {1000, 1500}, {1600, 2300}, {1000, 9999}} {
			per := per
			far := func(d *desc) { d.nb, d.na = per[0], per[1] }
			for pos, base := range []*cert{leaf, inter, root} {
				x := mk(base.d.with(far).with(func(d *desc) { d.id = fmt.Sprintf("%s-%d-%d", base.d.id, per[0], per[1]) }))
				if x == nil {
					return
				}
				l, i, r := leafE, interE, rootE
				switch pos {
				case 0:
					l = x
				case 1:
					i = x
				default:
					r = x
				}
				for _, y := range []int{1400, 1650, 1700, 2026, 2250, 2280, 2400, 2800, 9000} {
					t := year(y).Add(12 * time.Hour)
					want := true
					for _, e := range []*cert{l, i, r} {
						if t.Before(e.x.NotBefore) || t.After(e.x.NotAfter) {
							want = false
						}
					}
					opts := gx509.VerifyOptions{Roots: pool([]*cert{r}), Intermediates: pool([]*cert{i}), CurrentTime: t, KeyUsages: []gx509.ExtKeyUsage{gx509.ExtKeyUsageAny}}
					var chainsOut [][]*gx509.Certificate
					var verr error
					tag := fmt.Sprintf("chain L <- A <- R1 where %s is valid %d..%d and the others 1000..9999; verification time in %d", []string{"the leaf", "the intermediate", "the root"}[pos], per[0], per[1], y)
					c.Add("executions", 1)
					c.Add("transitions", 1)
					c.DistinctS("states", tag)
					if c.Guard("verify-panic:far-validity", tag, nil, func() { chainsOut, verr = l.x.Verify(opts) }) {
						continue
					}
					got := verr == nil && len(chainsOut) > 0
					if got != want {
						c.Violate(fmt.Sprintf("far-validity:%d-%d:position%d:%d", per[0], per[1], pos, y), fmt.Sprintf("[%s] Verify accepts=%v (err %v), the periods say %v", tag, got, verr, want), nil, nil)
					}
				}
			}
		}
		c.Sample("periods {2000-9999, 2300-2700, 1000-1500, 1600-2300, 1000-9999} on leaf / intermediate / root x verification years {1400,1650,1700,2026,2250,2280,2400,2800,9000}")
	}}
}

// deepUnit: up to 4 intermediates over the structurally interesting variants (thorough).
func deepUnit(k, part, parts int, allOrders bool) harness.Unit {
	return harness.Unit{Name: fmt.Sprintf("structure-deep/|I|=%d/part%d", k, part), Run: func(c *harness.Ctx) {
		u, err := buildUniverse()
		if err != nil {
			c.Violate("setup", err.Error(), nil, nil)
			return
		}
		var is, rs []*cert
		for _, id := range []string{"A", "A-altkey", "A-byR2", "A-byB", "A-pathlen0", "B", "B-byR1", "B-byAalt", "B-pathlen0", "C", "C-byA", "X-R1-as-intermediate", "A-expired"} {
			is = append(is, u.byID[id])
		}
		for _, id := range []string{"R1", "R2", "R1-pathlen0", "R1-pathlen1", "R1-otherkey"} {
			rs = append(rs, u.byID[id])
		}
		n := 0
		for _, r := range subsets(rs, 2) {
			if len(r) == 0 {
				continue
			}
			for _, i4 := range subsets(is, k) {
				if len(i4) != k {
					continue
				}
				n++
				if n%parts != part {
					continue
				}
				for _, lid := range []string{"L-byA", "L-byB", "L-byC"} {
					l := u.byID[lid]
					if !connectable(l, r, i4) {
						continue
					}
					if allOrders {
						for _, p := range permutations(i4) {
							check(c, u, l, r, p, query{year: 2020}, "structure-deep")
						}
						continue
					}
					check(c, u, l, r, i4, query{year: 2020}, "structure-deep")
					check(c, u, l, r, reversed(i4), query{year: 2020}, "structure-deep")
				}
			}
		}
	}}
}

// Prop registers C10.
var Prop = &harness.Prop{
	ID:          "C10",
	Level:       "model_checking",
	Rule:        "all small PKI topologies over a universe of ~65 real SM2 certificates described by ground-truth descriptors (valid/expired/not-yet-valid, CA true/false/no basic constraints, certSign yes/no/none, path length unset/0/1, forged signature, cross-signed, same-name-other-key, mutual loop A<->B, cross certificate of a root, permitted-domain constraints): every root subset of size <=2 x every intermediate subset up to the bound x 6 leaves, pools in forward, reverse (thorough: every) insertion order; leaves x 4 verification times x 14 host names x 5 usage requests over 5 pools; every constrained root x constrained intermediate x host name; leaf in the root pool; each Verify result is compared with a brute-force reference path validator over the descriptors (accept iff a path satisfying the statement exists) and every returned chain is checked link by link. states = distinct (roots, intermediates, leaf) topologies; transitions = Verify calls. Key identifiers are a dimension of the universe (subject key id derived/absent/unrelated, authority key id derived/absent/unrelated/that of another CA); the reference treats them as hints (RFC 5280). Extended key usages: leaves with server-gated-crypto, e-mail, unknown usages; CA certificates with an EKU extension next to twins without (ca-extended-key-usage unit); the model is evaluated in the statement's reading (leaf only) and in the chain-nested reading, verdicts are judged where both agree; server-gated crypto as serverAuth is not judged. Permitted-domain lists matching on the first of two and the middle of three entries; host names that only Unicode case folding would equate with a certified name. An intermediate re-encoded as an X.509 version 1 certificate (no extensions, signed again) is part of the universe. Far validity: periods ending in 9999 or lying centuries away, on each chain position, x verification years 1400..9000.",
	Assumptions: []string{"the reference validator implements exactly the conditions the statement lists; where the statement is silent the alphabet avoids the question (EKUs only on leaves, constrained CAs only with a non-empty host name, key ids a function of the key, SANs always present, all certificates v3)"},
	Bounds: func(tier string) string {
		if tier == "thorough" {
			return "roots <=2 of 11, intermediates <=3 of 20 in every insertion order, plus all 4-subsets of 13 structural variants with 1-2 of 5 roots"
		}
		return "roots <=2 of 11, intermediates <=2 of 20 in forward and reverse order, plus all 3-subsets of 13 structural variants with 1-2 of 5 roots"
	},
	Units: func(tier string) []harness.Unit {
		var u []harness.Unit
		if tier == "thorough" {
			for p := 0; p < 32; p++ {
				u = append(u, structureUnit(p, 32, 3, true))
			}
			for p := 0; p < 16; p++ {
				u = append(u, deepUnit(4, p, 16, false))
			}
		} else {
			for p := 0; p < 16; p++ {
				u = append(u, structureUnit(p, 16, 2, false))
			}
			for p := 0; p < 8; p++ {
				u = append(u, deepUnit(3, p, 8, false))
			}
		}
		for i := 0; i < 5; i++ {
			u = append(u, leafQueryUnit(i))
		}
		u = append(u, caEKUUnit())
		u = append(u, constraintUnit(), leafAsRootUnit(), boundaryTimeUnit())
		return u
	},
}
