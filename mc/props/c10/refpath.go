package c10

import (
	"net"
	"strings"

	gx509 "github.com/tjfoc/gmsm/x509"
)

// query is one verification request.
type query struct {
	year   int
	dns    string
	usages []gx509.ExtKeyUsage // nil = default (serverAuth)
}

// validity windows run from 1 June of year nb to 1 June of year na; queries are made on 1 January.
func validAt(d desc, y int) bool { return y > d.nb && y <= d.na }

// canSign: the issuer is a CA permitted to sign (v3: basic constraints present with cA, key usage
// absent or including certSign).
func canSign(d desc) bool { return d.hasBC && d.isCA && d.ku != 2 }

// dnsPermitted implements RFC 5280 dNSName constraints for the requested host name.
func dnsPermitted(name string, permit []string) bool {
	if len(permit) == 0 {
		return true
	}
	n := strings.ToLower(name)
	for _, c := range permit {
		c = strings.ToLower(c)
		if strings.HasPrefix(c, ".") {
			if len(n) > len(c) && strings.HasSuffix(n, c) {
				return true
			}
			continue
		}
		if n == c || strings.HasSuffix(n, "."+c) {
			return true
		}
	}
	return false
}

// hostMatches: exact (case-insensitive, trailing dot ignored), leftmost-label wildcard, or IP SAN.
func hostMatches(d desc, h string) bool {
	cand := h
	if len(h) >= 3 && h[0] == '[' && h[len(h)-1] == ']' {
		cand = h[1 : len(h)-1]
	}
	if ip := net.ParseIP(cand); ip != nil {
		for _, s := range d.ips {
			if ip.Equal(net.ParseIP(s)) {
				return true
			}
		}
		return false
	}
	host := strings.TrimSuffix(strings.ToLower(h), ".")
	if host == "" {
		return false
	}
	hl := strings.Split(host, ".")
	for _, pat := range d.dns {
		p := strings.TrimSuffix(strings.ToLower(pat), ".")
		pl := strings.Split(p, ".")
		if len(pl) != len(hl) {
			continue
		}
		ok := true
		for i := range pl {
			if i == 0 && pl[i] == "*" {
				continue
			}
			if pl[i] != hl[i] {
				ok = false
				break
			}
		}
		if ok {
			return true
		}
	}
	return false
}

func ekuOK(d desc, usages []gx509.ExtKeyUsage) bool {
	if len(usages) == 0 {
		usages = []gx509.ExtKeyUsage{gx509.ExtKeyUsageServerAuth}
	}
	for _, u := range usages {
		if u == gx509.ExtKeyUsageAny {
			return true
		}
	}
	if len(d.eku) == 0 && !d.unkEKU {
		return true
	}
	for _, e := range d.eku {
		if e == gx509.ExtKeyUsageAny {
			return true
		}
	}
	for _, u := range usages {
		for _, e := range d.eku {
			if e == u {
				return true
			}
		}
	}
	return false
}

// sgcAmbiguous: serverAuth is requested and the certificate lists only a "server gated crypto"
// usage for it. Go's verifier (and this fork) historically accept that as serverAuth; RFC 5280 read
// literally does not. The statement does not settle it, so the verdict is not judged either way.
func sgcAmbiguous(d desc, usages []gx509.ExtKeyUsage) bool {
	if len(usages) == 0 {
		usages = []gx509.ExtKeyUsage{gx509.ExtKeyUsageServerAuth}
	}
	if ekuOK(d, usages) {
		return false
	}
	srv := false
	for _, u := range usages {
		srv = srv || u == gx509.ExtKeyUsageServerAuth
	}
	if !srv {
		return false
	}
	for _, e := range d.eku {
		if e == gx509.ExtKeyUsageMicrosoftServerGatedCrypto || e == gx509.ExtKeyUsageNetscapeServerGatedCrypto {
			return true
		}
	}
	return false
}

// leafOK: the conditions on the leaf alone.
func leafOK(l desc, q query) bool {
	if l.critUnk || !validAt(l, q.year) {
		return false
	}
	if q.dns != "" && !hostMatches(l, q.dns) {
		return false
	}
	return ekuOK(l, q.usages)
}

// linkOK: child is correctly signed by parent and parent may sign, and parent is acceptable at
// position pos (pos = number of certificates below it in the chain).
func linkOK(child, parent desc, pos int, q query) bool {
	return linkOKN(child, parent, pos, q, false)
}

// linkOKN with nested = true also demands that a CA which carries an extended-key-usage extension
// allows the requested usage (the reading of Go's verifier and of this library; the statement speaks
// of the leaf only). Verdicts on which the two readings differ are not judged.
func linkOKN(child, parent desc, pos int, q query, nested bool) bool {
	if nested && !ekuOK(parent, q.usages) {
		return false
	}
	if child.issuer != parent.subject || child.signKey != parent.subjKey {
		return false
	}
	if !canSign(parent) || !validAt(parent, q.year) {
		return false
	}
	if parent.pathLen >= 0 && pos-1 > parent.pathLen {
		return false
	}
	return dnsPermitted(q.dns, parent.permit)
}

// refChains returns every acceptable chain (as index lists) by brute force over simple paths.
func refAccept(leaf *cert, roots, inters []*cert, q query) bool {
	return refAcceptN(leaf, roots, inters, q, false)
}

func refAcceptN(leaf *cert, roots, inters []*cert, q query, nested bool) bool {
	if nested && len(q.usages) > 1 {
		// nesting is per usage: ONE of the requested usages has to survive the whole chain
		for _, u1 := range q.usages {
			q1 := q
			q1.usages = []gx509.ExtKeyUsage{u1}
			if refAcceptN(leaf, roots, inters, q1, true) {
				return true
			}
		}
		return false
	}
	if !leafOK(leaf.d, q) {
		return false
	}
	for _, r := range roots {
		if r == leaf || r.d.id == leaf.d.id {
			return true // the leaf itself is a supplied root
		}
	}
	var dfs func(cur *cert, used map[string]bool, depth int) bool
	dfs = func(cur *cert, used map[string]bool, depth int) bool {
		for _, r := range roots {
			if used[r.d.id] {
				continue
			}
			if linkOKN(cur.d, r.d, depth, q, nested) {
				return true
			}
		}
		for _, in := range inters {
			if used[in.d.id] {
				continue
			}
			if linkOKN(cur.d, in.d, depth, q, nested) {
				used[in.d.id] = true
				ok := dfs(in, used, depth+1)
				delete(used, in.d.id)
				if ok {
					return true
				}
			}
		}
		return false
	}
	return dfs(leaf, map[string]bool{leaf.d.id: true}, 1)
}

// chainOK checks one returned chain against every condition of the statement.
func chainOK(chain []*cert, leaf *cert, roots, inters []*cert, q query) string {
	if len(chain) == 0 || chain[0].d.id != leaf.d.id {
		return "chain does not start at the leaf"
	}
	in := func(pool []*cert, c *cert) bool {
		for _, p := range pool {
			if p.d.id == c.d.id {
				return true
			}
		}
		return false
	}
	if !in(roots, chain[len(chain)-1]) {
		return "chain does not end in a supplied root"
	}
	for i := 1; i < len(chain)-1; i++ {
		if !in(inters, chain[i]) {
			return "chain uses a certificate that is not a supplied intermediate: " + chain[i].d.id
		}
	}
	if !leafOK(leaf.d, q) {
		return "leaf conditions not met"
	}
	seen := map[string]bool{}
	for i, c := range chain {
		if seen[c.d.id] {
			return "certificate repeated in chain: " + c.d.id
		}
		seen[c.d.id] = true
		if i > 0 && !linkOK(chain[i-1].d, c.d, i, q) {
			return "link " + chain[i-1].d.id + " <- " + c.d.id + " violates a condition (signature/name/CA/validity/path length/name constraint)"
		}
	}
	return ""
}
