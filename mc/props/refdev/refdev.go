// Package refdev enumerates deviations of a scripted reference peer (gmref): edits of the list of
// messages it sends in each flight. Unlike a man in the middle, the peer's Finished covers the
// transcript that really happened, so the endpoint under test can reject a deviation only by
// noticing the deviation itself.
package refdev

import (
	"fmt"
	"strings"

	"verif/mc/ref/gmref"
)

// Edit is one deviation applied to the items of one flight.
type Edit struct {
	Flight int
	Kind   string // omit, dup, swap, insert, replace
	Pos    int
	X      *gmref.Item
}

func (e Edit) String() string {
	switch e.Kind {
	case "insert":
		return fmt.Sprintf("flight %d: %s inserted at position %d", e.Flight, e.X.Name, e.Pos)
	case "replace":
		return fmt.Sprintf("flight %d: item %d replaced by %s", e.Flight, e.Pos, e.X.Name)
	case "swap":
		return fmt.Sprintf("flight %d: items %d and %d swapped", e.Flight, e.Pos, e.Pos+1)
	}
	return fmt.Sprintf("flight %d: item %d %s", e.Flight, e.Pos, map[string]string{"omit": "omitted", "dup": "sent twice"}[e.Kind])
}

// Apply transforms items; ok=false when the edit does not fit (list shorter than when enumerated).
func (e Edit) Apply(items []gmref.Item) ([]gmref.Item, bool) {
	out := append([]gmref.Item{}, items...)
	switch e.Kind {
	case "omit":
		if e.Pos >= len(out) {
			return items, false
		}
		return append(out[:e.Pos], out[e.Pos+1:]...), true
	case "dup":
		if e.Pos >= len(out) {
			return items, false
		}
		out = append(out[:e.Pos+1], out[e.Pos:]...)
		return out, true
	case "swap":
		if e.Pos+1 >= len(out) {
			return items, false
		}
		out[e.Pos], out[e.Pos+1] = out[e.Pos+1], out[e.Pos]
		return out, true
	case "insert":
		if e.Pos > len(out) {
			return items, false
		}
		out = append(out[:e.Pos], append([]gmref.Item{*e.X}, out[e.Pos:]...)...)
		return out, true
	case "replace":
		if e.Pos >= len(out) {
			return items, false
		}
		out[e.Pos] = *e.X
		return out, true
	}
	return items, false
}

// Enumerate lists every single edit of a flight with n items over the alphabet.
func Enumerate(flight, n int, alphabet []gmref.Item) []Edit {
	var es []Edit
	for i := 0; i < n; i++ {
		es = append(es, Edit{Flight: flight, Kind: "omit", Pos: i}, Edit{Flight: flight, Kind: "dup", Pos: i})
		if i+1 < n {
			es = append(es, Edit{Flight: flight, Kind: "swap", Pos: i})
		}
	}
	for k := range alphabet {
		x := &alphabet[k]
		for i := 0; i <= n; i++ {
			es = append(es, Edit{Flight: flight, Kind: "insert", Pos: i, X: x})
		}
		for i := 0; i < n; i++ {
			es = append(es, Edit{Flight: flight, Kind: "replace", Pos: i, X: x})
		}
	}
	return es
}

// Mutator returns a gmref Script.Mutate applying the edits (in order) and recording the names
// actually sent per flight.
func Mutator(edits []Edit, sent *[2][]string, fit *bool) func(flight int, items []gmref.Item) []gmref.Item {
	*fit = true
	return func(flight int, items []gmref.Item) []gmref.Item {
		for _, e := range edits {
			if e.Flight != flight {
				continue
			}
			var ok bool
			if items, ok = e.Apply(items); !ok {
				*fit = false
			}
		}
		if flight < 2 {
			for _, it := range items {
				sent[flight] = append(sent[flight], it.Name)
			}
		}
		return items
	}
}

// ---- alphabets ---------------------------------------------------------------------------------

func appData() gmref.Item {
	return gmref.Item{Name: "ApplicationData", Rec: gmref.RecApp, Build: func(p *gmref.Peer) []byte { return []byte("early") }}
}
func emptyAppData() gmref.Item {
	return gmref.Item{Name: "ApplicationData(empty)", Rec: gmref.RecApp, Build: func(p *gmref.Peer) []byte { return nil }}
}
func warning() gmref.Item {
	return gmref.Item{Name: "Alert(warning)", Rec: gmref.RecAlert, Build: func(p *gmref.Peer) []byte { return []byte{1, 100} }}
}
func helloRequest() gmref.Item {
	return gmref.Item{Name: "HelloRequest", Rec: gmref.RecHS, Build: func(p *gmref.Peer) []byte { return gmref.HS(0, nil) }}
}
func unknownHS() gmref.Item {
	return gmref.Item{Name: "handshake(99)", Rec: gmref.RecHS, Build: func(p *gmref.Peer) []byte { return gmref.HS(99, nil) }}
}
func ticket() gmref.Item {
	return gmref.Item{Name: "NewSessionTicket", Rec: gmref.RecHS, Build: func(p *gmref.Peer) []byte { return gmref.HS(4, []byte{0, 0, 0, 0, 0, 3, 1, 2, 3}) }}
}

func emptyCertificate() gmref.Item {
	return gmref.Item{Name: "Certificate(empty)", Rec: gmref.RecHS, Build: func(p *gmref.Peer) []byte { return gmref.HS(gmref.HSCertificate, []byte{0, 0, 0}) }}
}

// ServerAlphabet: what a misbehaving server may put anywhere.
func ServerAlphabet() []gmref.Item {
	return []gmref.Item{gmref.ItemServerHello(), gmref.ItemCertificate(), gmref.ItemServerKX(), gmref.ItemCertRequest(), gmref.ItemServerDone(),
		gmref.ItemCCS(), gmref.ItemFinished(), helloRequest(), unknownHS(), ticket(), appData(), emptyAppData(), warning(), gmref.ItemClientHello(), gmref.ItemClientKX(), emptyCertificate()}
}

// ClientAlphabet: what a misbehaving client may put anywhere.
func ClientAlphabet() []gmref.Item {
	return []gmref.Item{gmref.ItemClientHello(), gmref.ItemCertificate(), gmref.ItemClientKX(), gmref.ItemCertVerify(), gmref.ItemCCS(), gmref.ItemFinished(),
		helloRequest(), unknownHS(), appData(), emptyAppData(), warning(), gmref.ItemServerHello(), gmref.ItemServerDone(), emptyCertificate()}
}

// ---- conformance -------------------------------------------------------------------------------

// Verdicts.
const (
	MustComplete = "must-complete"
	MayComplete  = "may-complete"
	MustAbort    = "must-abort"
)

// tolerated items do not make a sequence non-conformant by themselves (an endpoint may ignore them
// or may abort): warning alerts, and HelloRequest towards a client.
func tolerated(name string, towardsClient bool) bool {
	return name == "Alert(warning)" || (towardsClient && name == "HelloRequest")
}

// ClassifyFlights is Classify for a peer that sends two flights: a sequence whose concatenation is
// conformant but whose split over the flights differs from the honest split (a message sent before
// the peer could know what it needs, e.g. ChangeCipherSpec before the keys exist) cannot be
// produced faithfully by the scripted peer, so it is not judged beyond crashes and hangs.
func ClassifyFlights(sent [2][]string, honest [2][]string, wants [][]string, towardsClient bool) string {
	stream := append(append([]string{}, sent[0]...), sent[1]...)
	v := Classify(stream, wants, towardsClient)
	if v != MustAbort {
		strip := func(l []string) string {
			var o []string
			for _, s := range l {
				if !tolerated(s, towardsClient) {
					o = append(o, s)
				}
			}
			return strings.Join(o, ",")
		}
		first := strip(sent[0])
		okSplit := false
		for _, w := range wants {
			// the first flight must be exactly the first flight of a conformant stream: everything up
			// to and including ServerHelloDone / ClientHello
			for cut := 1; cut <= len(w); cut++ {
				if (w[cut-1] == "ServerHelloDone" || w[cut-1] == "ClientHello") && strings.Join(w[:cut], ",") == first {
					okSplit = true
				}
			}
		}
		if !okSplit {
			return MayComplete
		}
	}
	return v
}

// Classify decides what the endpoint under test owes for the stream of items `sent` (all flights
// concatenated) given the conformant streams `wants` (e.g. with and without CertificateRequest).
func Classify(sent []string, wants [][]string, towardsClient bool) string {
	var core []string
	tol := false
	for _, s := range sent {
		if tolerated(s, towardsClient) {
			tol = true
			continue
		}
		core = append(core, s)
	}
	j := strings.Join(core, ",")
	best := MustAbort
	for _, want := range wants {
		w := strings.Join(want, ",")
		switch {
		case j == w && !tol:
			return MustComplete
		case j == w:
			best = MayComplete
		case strings.HasPrefix(j, w+","):
			best = MayComplete // everything the handshake needs arrived in order; the rest comes after completion
		}
	}
	return best
}

// ServerStreams are the conformant server-to-client streams of the ECC suites.
func ServerStreams() [][]string {
	return [][]string{
		{"ServerHello", "Certificate", "ServerKeyExchange", "ServerHelloDone", "ChangeCipherSpec", "Finished"},
		{"ServerHello", "Certificate", "ServerKeyExchange", "CertificateRequest", "ServerHelloDone", "ChangeCipherSpec", "Finished"},
	}
}
