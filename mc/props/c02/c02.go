// Package c02: SM2 encryption round-trips, matches GM/T 0003.4, rejects forgeries (DESIGN §3 C02).
package c02

import (
	"bytes"
	"encoding/asn1"
	"fmt"
	"math/big"

	"github.com/tjfoc/gmsm/sm2"

	"verif/mc/harness"
	"verif/mc/props/pu"
	"verif/mc/props/sm2k"
	"verif/mc/ref/refsm2"
	"verif/mc/ref/refsm3"
)

type budgetExceeded struct{ consumed int }

// stream is a scripted, effectively endless randomness source: the first bytes are the chosen
// nonce, then a position-dependent pattern. Drawing more than budget bytes means the encryptor
// keeps retrying: the stream panics with budgetExceeded (a step budget, not a stop-watch).
type stream struct {
	head     []byte
	pos      int
	perRead  int
	budget   int
	consumed int
}

func (s *stream) Read(p []byte) (int, error) {
	n := len(p)
	if s.perRead > 0 && n > s.perRead {
		n = s.perRead
	}
	if s.consumed+n > s.budget {
		panic(budgetExceeded{s.consumed})
	}
	for i := 0; i < n; i++ {
		if s.pos < len(s.head) {
			p[i] = s.head[s.pos]
		} else {
			p[i] = byte(s.pos*73 + 11)
		}
		s.pos++
	}
	s.consumed += n
	return n, nil
}

type nonce struct {
	name    string
	k       *big.Int
	perRead int
}

// nonceAlphabet: boundary nonces plus, for the given public key, nonces found by deterministic
// search for which C1 or the shared point (x2,y2) has a coordinate with a leading zero byte.
func nonceAlphabet(pub refsm2.Point) []nonce {
	n := refsm2.N
	out := []nonce{
		{"k=1", big.NewInt(1), 0},
		{"k=2", big.NewInt(2), 0},
		{"k=n-1", new(big.Int).Sub(n, big.NewInt(1)), 0},
		{"k=pattern", refsm2.NonceFromBytes(pu.Msg(777, 40)), 0},
		{"k=pattern2, 1 byte per Read", refsm2.NonceFromBytes(pu.Msg(778, 40)), 1},
	}
	var fx1, fy1, fx2, fy2 bool
	c1 := refsm2.BaseMul(big.NewInt(2))
	s := refsm2.Mul(big.NewInt(2), pub)
	g := refsm2.G()
	for k := int64(3); k < 6000 && !(fx1 && fy1 && fx2 && fy2); k++ {
		c1 = refsm2.Add(c1, g)
		s = refsm2.Add(s, pub)
		if s.Inf {
			continue
		}
		short := func(v *big.Int) bool { return len(v.Bytes()) < 32 }
		switch {
		case short(c1.X) && !fx1:
			fx1 = true
			out = append(out, nonce{"x1 leading zero", big.NewInt(k), 0})
		case short(c1.Y) && !fy1:
			fy1 = true
			out = append(out, nonce{"y1 leading zero", big.NewInt(k), 0})
		case short(s.X) && !fx2:
			fx2 = true
			out = append(out, nonce{"x2 leading zero", big.NewInt(k), 0})
		case short(s.Y) && !fy2:
			fy2 = true
			out = append(out, nonce{"y2 leading zero", big.NewInt(k), 0})
		}
	}
	return out
}

type sm2Cipher struct {
	X, Y *big.Int
	Hash []byte
	C2   []byte
}

func refASN1(ct []byte) []byte {
	x := new(big.Int).SetBytes(ct[1:33])
	y := new(big.Int).SetBytes(ct[33:65])
	b, err := asn1.Marshal(sm2Cipher{x, y, ct[65:97], ct[97:]})
	if err != nil {
		panic(err)
	}
	return b
}

var modeNames = []string{"C1C3C2", "C1C2C3", "ASN.1"}

func quickLens() []int { return []int{1, 2, 31, 32, 33, 63, 64, 65, 95, 96, 97, 255, 256, 1024, 4096} }
func thoroughLens() []int {
	var l []int
	seen := map[int]bool{}
	add := func(v int) {
		if v >= 1 && !seen[v] {
			seen[v] = true
			l = append(l, v)
		}
	}
	for i := 1; i <= 200; i++ {
		add(i)
	}
	for m := 32; m <= 4096; m += 32 {
		add(m - 1)
		add(m)
		add(m + 1)
	}
	return l
}

func libEncrypt(mode int, pub *sm2.PublicKey, msg []byte, st *stream) ([]byte, error) {
	switch mode {
	case 0:
		return sm2.Encrypt(pub, msg, st, sm2.C1C3C2)
	case 1:
		return sm2.Encrypt(pub, msg, st, sm2.C1C2C3)
	}
	return sm2.EncryptAsn1(pub, msg, st)
}

func libDecrypt(mode int, priv *sm2.PrivateKey, ct []byte) ([]byte, error) {
	switch mode {
	case 0:
		return sm2.Decrypt(priv, ct, sm2.C1C3C2)
	case 1:
		return sm2.Decrypt(priv, ct, sm2.C1C2C3)
	}
	return sm2.DecryptAsn1(priv, ct)
}

func refCT(mode int, pub refsm2.Point, msg []byte, k *big.Int) ([]byte, bool) {
	switch mode {
	case 0:
		return refsm2.Encrypt(pub, msg, k, refsm2.C1C3C2)
	case 1:
		return refsm2.Encrypt(pub, msg, k, refsm2.C1C2C3)
	}
	ct, ok := refsm2.Encrypt(pub, msg, k, refsm2.C1C3C2)
	if !ok {
		return nil, false
	}
	return refASN1(ct), true
}

func encUnit(ki int, tier string) harness.Unit {
	return harness.Unit{Name: fmt.Sprintf("encrypt/key%d", ki), Run: func(c *harness.Ctx) {
		key := sm2k.Alphabet()[ki]
		priv := key.Lib()
		lens := quickLens()
		ncs := nonceAlphabet(key.Pub)
		if tier == "thorough" {
			lens = thoroughLens()
		}
		var held pu.Held
		defer func() {
			if n := held.Changed(); n != "" {
				c.Violate("earlier-result-changed", "a ciphertext or plaintext returned earlier no longer holds what it held: "+n, nil, nil)
			}
		}()
		for li, L := range lens {
			msg := pu.Msg(L+ki, L)
			for ni, nc := range ncs {
				if tier == "thorough" && L > 200 && (li+ni)%3 != 0 && nc.perRead == 0 && ni < 4 {
					continue // thorough: the dense length sweep uses every third boundary nonce, all constructed ones
				}
				for mode := 0; mode < 3; mode++ {
					tag := fmt.Sprintf("%s |M|=%d nonce=%s %s", key.Name, L, nc.name, modeNames[mode])
					c.Add("evaluations", 1)
					c.DistinctS("nontrivial", tag)
					want, ok := refCT(mode, key.Pub, msg, nc.k)
					if !ok {
						c.Note("nonce rejected by the standard for %s - skipped", tag)
						continue
					}
					st := &stream{head: refsm2.BytesForNonce(nc.k, 0), perRead: nc.perRead, budget: 40 * 4}
					var ct []byte
					var err error
					r := harness.Try(func() { ct, err = libEncrypt(mode, &priv.PublicKey, msg, st) })
					if r != nil {
						if be, isB := r.(budgetExceeded); isB {
							c.Violate(fmt.Sprintf("encrypt-keeps-retrying:%s", modeNames[mode]), fmt.Sprintf("[%s] encryption drew more than %d bytes of randomness although the first nonce is valid", tag, be.consumed), nil, nil)
						} else {
							c.Violate("encrypt-panic:"+modeNames[mode], fmt.Sprintf("[%s] panicked: %v", tag, r), nil, nil)
						}
						continue
					}
					if err != nil {
						c.Violate("encrypt-error:"+modeNames[mode], fmt.Sprintf("[%s] failed: %v", tag, err), nil, nil)
						continue
					}
					held.Keep("ciphertext "+tag, ct)
					if n := held.Changed(); n != "" {
						c.Violate("earlier-result-changed", fmt.Sprintf("[%s] after this call an earlier result no longer holds what it held: %s", tag, n), nil, nil)
						return
					}
					if !bytes.Equal(ct, want) {
						c.Violate(fmt.Sprintf("encrypt-value:%s:%s:%s", key.Name, nc.name, modeNames[mode]), fmt.Sprintf("[%s] ciphertext %s, GM/T 0003.4 prescribes %s", tag, pu.Hex(ct), pu.Hex(want)), nil, nil)
					}
					if st.consumed != 40 {
						c.Violate("encrypt-randomness-consumed", fmt.Sprintf("[%s] consumed %d bytes of randomness for one valid nonce", tag, st.consumed), nil, nil)
					}
					// decrypt the STANDARD ciphertext
					var pt []byte
					if c.Guard("decrypt-panic:"+modeNames[mode], "decrypt ["+tag+"]", nil, func() { pt, err = libDecrypt(mode, priv, want) }) {
						continue
					}
					held.Keep("plaintext "+tag, pt)
					if err != nil || !bytes.Equal(pt, msg) {
						c.Violate(fmt.Sprintf("decrypt-value:%s:%s:%s", key.Name, nc.name, modeNames[mode]), fmt.Sprintf("[%s] decryption of the standard ciphertext returned %s err=%v", tag, pu.Hex(pt), err), nil, nil)
					}
					if mode == 0 {
						var p2 []byte
						if !c.Guard("decrypter-panic", "PrivateKey.Decrypt ["+tag+"]", nil, func() { p2, err = priv.Decrypt(nil, want, nil) }) {
							if err != nil || !bytes.Equal(p2, msg) {
								c.Violate("decrypter-value:"+key.Name, fmt.Sprintf("[%s] PrivateKey.Decrypt returned %s err=%v", tag, pu.Hex(p2), err), nil, nil)
							}
						}
					}
					if c.WantSample() {
						c.Sample(tag)
					}
				}
			}
		}
		// the empty plaintext: must end with a ciphertext or an error, without drawing nonces forever
		for mode := 0; mode < 3; mode++ {
			st := &stream{head: pu.Msg(1, 40), budget: 40 * 64}
			c.Add("evaluations", 1)
			r := harness.Try(func() { libEncrypt(mode, &priv.PublicKey, []byte{}, st) })
			if r != nil {
				if _, isB := r.(budgetExceeded); isB {
					c.Violate("encrypt-empty-never-returns:"+modeNames[mode], fmt.Sprintf("[%s %s] encrypting the empty plaintext draws nonces without end (more than 64 attempts)", key.Name, modeNames[mode]), nil, nil)
				} else {
					c.Violate("encrypt-empty-panic:"+modeNames[mode], fmt.Sprint(r), nil, nil)
				}
			}
		}
	}}
}

// retryUnit: nonces for which the KDF output is all zero (1-byte plaintext: about 1 nonce in 256)
// make the standard go back to step A1; the encryptor must then produce exactly the ciphertext of
// the NEXT nonce of the stream and consume 80 bytes.
func retryUnit(ki int) harness.Unit {
	return harness.Unit{Name: fmt.Sprintf("nonce-retry/key%d", ki), Run: func(c *harness.Ctx) {
		key := sm2k.Alphabet()[ki]
		priv := key.Lib()
		msg := []byte{0x5a}
		found := 0
		for i := 0; i < 4000 && found < 3; i++ {
			head := pu.Msg(50000+i*41, 40)
			k1 := refsm2.NonceFromBytes(head)
			if _, ok := refsm2.Encrypt(key.Pub, msg, k1, refsm2.C1C3C2); ok {
				continue
			}
			// first nonce is rejected; choose a following 40 bytes whose nonce is accepted
			var second []byte
			var k2 *big.Int
			for j := 0; ; j++ {
				second = pu.Msg(90000+i*7+j, 40)
				k2 = refsm2.NonceFromBytes(second)
				if _, ok := refsm2.Encrypt(key.Pub, msg, k2, refsm2.C1C3C2); ok {
					break
				}
			}
			found++
			for mode := 0; mode < 3; mode++ {
				tag := fmt.Sprintf("%s |M|=1 first nonce gives an all-zero KDF output (stream %d) %s", key.Name, i, modeNames[mode])
				c.Add("evaluations", 1)
				c.DistinctS("nontrivial", tag)
				want, _ := refCT(mode, key.Pub, msg, k2)
				st := &stream{head: append(append([]byte{}, head...), second...), budget: 40 * 6}
				var ct []byte
				var err error
				if r := harness.Try(func() { ct, err = libEncrypt(mode, &priv.PublicKey, msg, st) }); r != nil {
					c.Violate("encrypt-retry-panic:"+modeNames[mode], fmt.Sprintf("[%s] %v", tag, r), nil, nil)
					continue
				}
				if err != nil || !bytes.Equal(ct, want) {
					c.Violate("encrypt-retry-value:"+modeNames[mode], fmt.Sprintf("[%s] after the rejected nonce the ciphertext is %s (err %v); the standard prescribes the ciphertext of the next nonce %s", tag, pu.Hex(ct), err, pu.Hex(want)), nil, nil)
					continue
				}
				if st.consumed != 80 {
					c.Violate("encrypt-retry-consumed", fmt.Sprintf("[%s] consumed %d bytes, want 80", tag, st.consumed), nil, nil)
				}
				var pt []byte
				if !c.Guard("decrypt-panic:retry", "decrypt "+tag, nil, func() { pt, err = libDecrypt(mode, priv, ct) }) {
					if err != nil || !bytes.Equal(pt, msg) {
						c.Violate("decrypt-retry-value:"+modeNames[mode], fmt.Sprintf("[%s] own ciphertext does not decrypt: %v", tag, err), nil, nil)
					}
				}
			}
		}
		c.Note("rejected first nonces found for %s: %d", key.Name, found)
		c.Sample(fmt.Sprintf("%s: 1-byte plaintext with a first nonce whose KDF output is zero, followed by a valid nonce", key.Name))
	}}
}

// invalidCurvePoints returns points of order 2 and 3 on curves y^2 = x^3 + a x + b' with b' != b.
func invalidCurvePoints() (pts []refsm2.Point, orders []int) {
	p, a := refsm2.P, refsm2.A
	// order 2: (x, 0) with b' = -(x^3 + a x)
	for _, x := range []int64{2, 3, 5} {
		pts = append(pts, refsm2.Point{X: big.NewInt(x), Y: big.NewInt(0)})
		orders = append(orders, 2)
	}
	// order 3: psi3(x) = 3x^4 + 6 a x^2 + 12 b' x - a^2 = 0  =>  b' = (a^2 - 3x^4 - 6 a x^2) / (12 x)
	found := 0
	for xi := int64(2); xi < 200 && found < 3; xi++ {
		x := big.NewInt(xi)
		x2 := new(big.Int).Mul(x, x)
		x4 := new(big.Int).Mul(x2, x2)
		num := new(big.Int).Mul(a, a)
		num.Sub(num, new(big.Int).Mul(big.NewInt(3), x4))
		t := new(big.Int).Mul(big.NewInt(6), a)
		num.Sub(num, t.Mul(t, x2))
		num.Mod(num, p)
		den := new(big.Int).Mul(big.NewInt(12), x)
		den.ModInverse(den, p)
		bp := num.Mul(num, den)
		bp.Mod(bp, p)
		rhs := new(big.Int).Mul(x2, x)
		rhs.Add(rhs, new(big.Int).Mul(a, x))
		rhs.Add(rhs, bp)
		rhs.Mod(rhs, p)
		y := new(big.Int).ModSqrt(rhs, p)
		if y == nil || y.Sign() == 0 || bp.Cmp(refsm2.B) == 0 {
			continue
		}
		pt := refsm2.Point{X: x, Y: y}
		if !refsm2.Add(refsm2.Double(pt), pt).Inf { // reference group law (b-independent) confirms order 3
			continue
		}
		pts = append(pts, pt)
		orders = append(orders, 3)
		found++
	}
	return
}

func forgeUnit(ki int, tier string) harness.Unit {
	return harness.Unit{Name: fmt.Sprintf("forgery/key%d", ki), Run: func(c *harness.Ctx) {
		keys := sm2k.Alphabet()
		key := keys[ki]
		priv := key.Lib()
		other := keys[(ki+3)%len(keys)]
		lens := []int{1, 32, 33, 100}
		for _, L := range lens {
			msg := pu.Msg(L+9, L)
			k := refsm2.NonceFromBytes(pu.Msg(L*7, 40))
			for mode := 0; mode < 3; mode++ {
				ct, ok := refCT(mode, key.Pub, msg, k)
				if !ok {
					continue
				}
				base := fmt.Sprintf("%s |M|=%d %s", key.Name, L, modeNames[mode])
				try := func(kind string, bad []byte) {
					c.Add("evaluations", 1)
					c.Distinct("nontrivial", bad)
					var pt []byte
					var err error
					if c.Guard(fmt.Sprintf("decrypt-panic:%s:%s", kindClass(kind), modeNames[mode]), fmt.Sprintf("decrypt [%s] %s (%d bytes)", base, kind, len(bad)), nil, func() { pt, err = libDecrypt(mode, priv, bad) }) {
						return
					}
					if err == nil {
						c.Violate(fmt.Sprintf("decrypt-accepts:%s:%s", kindClass(kind), modeNames[mode]), fmt.Sprintf("[%s] %s accepted without error, returned %s", base, kind, pu.Hex(pt)), nil, nil)
					}
				}
				start := 1 // the point-format byte is not among the fields the statement lists
				if mode == 2 {
					start = 0
				}
				for i := start; i < len(ct); i++ {
					for _, v := range []byte{ct[i] ^ 1, ct[i] ^ 0x80, 0x00, 0xff} {
						if v == ct[i] {
							continue
						}
						bad := append([]byte{}, ct...)
						bad[i] = v
						try(fmt.Sprintf("byte %d (%s) %02x->%02x", i, field(mode, i, len(ct), L), ct[i], v), bad)
					}
				}
				for n := 0; n < len(ct); n++ {
					try(fmt.Sprintf("truncated to %d bytes", n), ct[:n])
				}
				if octx, ok := refCT(mode, other.Pub, msg, k); ok {
					try("made for another key", octx)
				}
				if mode != 2 {
					// C1 replaced by (0,0) and by x+-1 (off curve)
					z := append([]byte{}, ct...)
					for i := 1; i < 65; i++ {
						z[i] = 0
					}
					try("C1=(0,0)", z)
				}
			}
		}
		// invalid-curve C1 of small order: the attacker guesses d mod q and builds C2/C3 consistently
		pts, orders := invalidCurvePoints()
		for pi, pt := range pts {
			q := orders[pi]
			for j := 0; j < q; j++ {
				s := refsm2.Mul(big.NewInt(int64(j)), pt)
				var x2, y2 []byte
				if s.Inf {
					x2, y2 = make([]byte, 32), make([]byte, 32) // how the library represents infinity
				} else {
					x2, y2 = refsm2.Pad32(s.X), refsm2.Pad32(s.Y)
				}
				msg := []byte("invalid-curve probe")
				t := refsm2.KDF(append(append([]byte{}, x2...), y2...), len(msg))
				c2 := make([]byte, len(msg))
				for i := range msg {
					c2[i] = msg[i] ^ t[i]
				}
				c3 := refsm3.SumSlice(append(append(append([]byte{}, x2...), msg...), y2...))
				ct := append([]byte{4}, refsm2.Pad32(pt.X)...)
				ct = append(ct, refsm2.Pad32(pt.Y)...)
				ct = append(ct, c3...)
				ct = append(ct, c2...)
				c.Add("evaluations", 1)
				c.Distinct("nontrivial", ct)
				// the same forged ciphertext through EVERY decryption entry point
				ct2 := append(append(append([]byte{}, ct[:65]...), c2...), c3...) // C1C2C3 ordering
				der, derr := sm2.CipherMarshal(ct)
				entries := []struct {
					name string
					run  func() ([]byte, error)
				}{
					{"Decrypt(C1C3C2)", func() ([]byte, error) { return sm2.Decrypt(priv, ct, sm2.C1C3C2) }},
					{"Decrypt(C1C2C3)", func() ([]byte, error) { return sm2.Decrypt(priv, ct2, sm2.C1C2C3) }},
					{"DecryptAsn1", func() ([]byte, error) { return sm2.DecryptAsn1(priv, der) }},
					{"PrivateKey.DecryptAsn1", func() ([]byte, error) { return priv.DecryptAsn1(der) }},
					{"PrivateKey.Decrypt(crypto.Decrypter)", func() ([]byte, error) { return priv.Decrypt(nil, ct, nil) }},
				}
				for _, en := range entries {
					if derr != nil && (en.name == "DecryptAsn1" || en.name == "PrivateKey.DecryptAsn1") {
						continue // the ASN.1 form could not be built (CipherMarshal refuses): nothing to offer
					}
					var out []byte
					var err error
					if c.Guard("decrypt-panic:invalid-curve:"+en.name, fmt.Sprintf("%s with C1 of order %d on another curve", en.name, q), nil, func() { out, err = en.run() }) {
						continue
					}
					if err == nil {
						c.Violate(fmt.Sprintf("decrypt-accepts:invalid-curve-order-%d:%s", q, en.name), fmt.Sprintf("[%s] %s: ciphertext whose C1=(%x,%x) has order %d on y^2=x^3+ax+b' (b'!=b), built for the guess d mod %d = %d, decrypts without error to %q: C1 is not checked to be on the SM2 curve", key.Name, en.name, pt.X, pt.Y, q, q, j, out), nil, nil)
					}
				}
			}
		}
		c.Sample(fmt.Sprintf("%s: every single-byte substitution {b^1,b^0x80,00,ff}, every truncation, other-key, C1=(0,0), C1 of order 2/3 on an invalid curve", key.Name))
	}}
}

func kindClass(kind string) string {
	switch {
	case len(kind) > 4 && kind[:4] == "byte":
		// "byte N (field) .."
		a := bytes.IndexByte([]byte(kind), '(')
		b := bytes.IndexByte([]byte(kind), ')')
		return "byte-in-" + kind[a+1:b]
	case len(kind) > 9 && kind[:9] == "truncated":
		return "truncated"
	}
	return kind
}

func field(mode, i, n, L int) string {
	switch mode {
	case 0:
		switch {
		case i < 65:
			return "C1"
		case i < 97:
			return "C3"
		}
		return "C2"
	case 1:
		switch {
		case i < 65:
			return "C1"
		case i < 65+L:
			return "C2"
		}
		return "C3"
	}
	return "DER"
}

// Prop registers C02.
var Prop = &harness.Prop{
	ID:          "C02",
	Level:       "exploration",
	Rule:        "encryption: full product keys x plaintext lengths x nonces (k=1,2,n-1, patterns, 1-byte reads, and per key the first k whose C1 / shared point has a coordinate with a leading zero byte) x {C1C3C2, C1C2C3, ASN.1}: ciphertext bytes equal the independent GM/T 0003.4 reference, randomness consumed = 40 bytes, the STANDARD ciphertext decrypts to the plaintext; empty plaintext must return within a 64-nonce budget; the retry branch is driven by nonces found by search whose KDF output for a 1-byte plaintext is all zero (the next nonce's ciphertext and 80 consumed bytes are required). forgeries (fault enumeration): every single-byte substitution from {b^1,b^0x80,00,ff} and every truncation of valid ciphertexts in all three forms, ciphertext for another key, C1=(0,0), and C1 of order 2 and 3 on curves b'!=b with C2/C3 built for every guess of d mod q: an error is required. Distinct/non-trivial = distinct case labels / distinct mutated inputs. The invalid-curve ciphertexts go through every decryption entry point (both orderings, DecryptAsn1, PrivateKey.DecryptAsn1, crypto.Decrypter). Results stay the caller's: the last 32 returned ciphertexts / plaintexts are compared again after every later call.",
	Assumptions: []string{"refsm2/refsm3 correct (GM/T 0003.5 examples)", "nonce k = int(40 bytes) mod (n-1) + 1", "the leading point-format byte 0x04 is not mutated (the statement does not list it)"},
	Bounds: func(tier string) string {
		if tier == "thorough" {
			return "12 keys; every length 1..200 and 32m-1,32m,32m+1 up to 4097; forgeries on all 12 keys"
		}
		return "12 keys; lengths {1,2,31,32,33,63,64,65,95,96,97,255,256,1024,4096}; forgeries on the 6-key sub-alphabet"
	},
	Units: func(tier string) []harness.Unit {
		var u []harness.Unit
		small := map[string]bool{}
		for _, k := range sm2k.Small() {
			small[k.Name] = true
		}
		for i, k := range sm2k.Alphabet() {
			u = append(u, encUnit(i, tier))
			if tier == "thorough" || small[k.Name] {
				u = append(u, retryUnit(i))
			}
			if tier == "thorough" || small[k.Name] {
				u = append(u, forgeUnit(i, tier))
			}
		}
		return u
	},
}
