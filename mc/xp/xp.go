// Package xp is a stateless, replay-based explorer of choice points.
//
// A harness is a function func(*X). Whenever the environment has a decision (next
// operation, how many bytes a source returns, which fault is applied, ...) the harness
// calls x.Choose(n) (choice 0 is the default answer, any other answer costs one
// deviation) or x.Pick(n) (all answers are free).  Explore enumerates every choice
// vector with at most MaxDev deviations by depth-first search with replay: run with a
// prefix, answer 0 afterwards, record the arity at every later point, recurse on every
// alternative.  A different arity or an out-of-range choice while replaying a prefix is
// a hard error (the harness is non-deterministic), never a violation.
package xp

import (
	"fmt"
)

// X is one execution.
type X struct {
	prefix  []int
	Choices []int
	arity   []int
	free    []bool
	Labels  []string
	// recorded arities of the parent execution for the replayed prefix (nil for a root run)
	wantArity []int
	Diverged  string
	// Trace is free for the harness to use (human readable operation list).
	Trace []string
	keep  bool
}

func (x *X) point(n int, free bool, label string) int {
	if n <= 0 {
		panic(fmt.Sprintf("xp: choice point %q with arity %d", label, n))
	}
	i := len(x.Choices)
	c := 0
	if i < len(x.prefix) {
		c = x.prefix[i]
		if c >= n {
			x.Diverged = fmt.Sprintf("point %d (%s): replayed choice %d out of range %d", i, label, c, n)
			c = 0
		}
		if x.wantArity != nil && i < len(x.wantArity) && x.wantArity[i] != n {
			x.Diverged = fmt.Sprintf("point %d (%s): arity %d on replay, %d when recorded", i, label, n, x.wantArity[i])
		}
	}
	x.Choices = append(x.Choices, c)
	x.arity = append(x.arity, n)
	x.free = append(x.free, free)
	if x.keep {
		x.Labels = append(x.Labels, label)
	}
	return c
}

// Choose returns an answer in [0,n); 0 is the default, others cost one deviation.
func (x *X) Choose(n int, label string) int { return x.point(n, false, label) }

// Pick returns an answer in [0,n); all answers are free (no deviation cost).
func (x *X) Pick(n int, label string) int { return x.point(n, true, label) }

// Log appends to the human-readable trace.
func (x *X) Log(format string, a ...interface{}) {
	if x.keep {
		x.Trace = append(x.Trace, fmt.Sprintf(format, a...))
	}
}

// Depth is the number of choice points passed so far.
func (x *X) Depth() int { return len(x.Choices) }

// Stats are measured by the explorer.
type Stats struct {
	Executions   int64
	ChoicePoints int64
	MaxDepth     int
	Capped       bool // MaxExec hit: the space below was not completed
	Diverged     int64
}

// Explorer enumerates choice vectors.
type Explorer struct {
	MaxDev    int   // maximum number of deviations; <0 means unbounded (full product)
	MaxExec   int64 // 0 = no cap
	KeepTrace bool  // record labels / traces in every execution (slower)
	Stats     Stats
	// OnDiverge is called when a replayed prefix does not reproduce (harness bug).
	OnDiverge func(prefix []int, msg string)
}

type frame struct {
	prefix []int
	arity  []int
	devs   int
}

// Run executes fn once with the given fixed choice vector (used for replays).
func Run(vector []int, fn func(x *X)) *X {
	x := &X{prefix: vector, keep: true}
	fn(x)
	return x
}

// Explore runs fn for every choice vector within the bound. after is called once per
// completed execution (oracle evaluation); it may be nil when fn checks by itself.
func (e *Explorer) Explore(fn func(x *X), after func(x *X)) {
	stack := []frame{{}}
	for len(stack) > 0 {
		f := stack[len(stack)-1]
		stack = stack[:len(stack)-1]
		if e.MaxExec > 0 && e.Stats.Executions >= e.MaxExec {
			e.Stats.Capped = true
			return
		}
		x := &X{prefix: f.prefix, wantArity: f.arity, keep: e.KeepTrace}
		fn(x)
		e.Stats.Executions++
		e.Stats.ChoicePoints += int64(len(x.Choices))
		if len(x.Choices) > e.Stats.MaxDepth {
			e.Stats.MaxDepth = len(x.Choices)
		}
		if x.Diverged != "" || len(x.Choices) < len(f.prefix) {
			e.Stats.Diverged++
			msg := x.Diverged
			if msg == "" {
				msg = fmt.Sprintf("execution ended after %d points, prefix has %d", len(x.Choices), len(f.prefix))
			}
			if e.OnDiverge != nil {
				e.OnDiverge(f.prefix, msg)
			} else {
				panic("xp: non-deterministic harness: " + msg)
			}
			continue
		}
		if after != nil {
			after(x)
		}
		// children: alternatives at every point after the prefix (all of which took 0)
		for i := len(x.Choices) - 1; i >= len(f.prefix); i-- {
			cost := 1
			if x.free[i] {
				cost = 0
			}
			if e.MaxDev >= 0 && f.devs+cost > e.MaxDev {
				continue
			}
			for alt := x.arity[i] - 1; alt >= 1; alt-- {
				p := make([]int, i+1)
				copy(p, x.Choices[:i])
				p[i] = alt
				stack = append(stack, frame{prefix: p, arity: x.arity[:i+1], devs: f.devs + cost})
			}
		}
	}
}
