// Command check runs one property check: check <Cxx> <quick|thorough> | check <Cxx> --replay <file>.
package main

import (
	"verif/mc/harness"
	"verif/mc/props/c04"
)

func main() {
	harness.Main(map[string]*harness.Prop{
		"C04": c04.Prop,
	})
}
