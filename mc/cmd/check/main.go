// Command check runs one property check: check <Cxx> <quick|thorough> | check <Cxx> --replay <file>.
package main

import (
	"verif/mc/harness"
	"verif/mc/props/c01"
	"verif/mc/props/c02"
	"verif/mc/props/c03"
	"verif/mc/props/c04"
	"verif/mc/props/c05"
	"verif/mc/props/c06"
	"verif/mc/props/c07"
	"verif/mc/props/c08"
	"verif/mc/props/c09"
	"verif/mc/props/c10"
	"verif/mc/props/c11"
	"verif/mc/props/c12"
	"verif/mc/props/c13"
	"verif/mc/props/c14"
	"verif/mc/props/c15"
	"verif/mc/props/c16"
	"verif/mc/props/c17"
	"verif/mc/props/c18"
	"verif/mc/props/c19"
)

func main() {
	harness.Main(map[string]*harness.Prop{
		"C01": c01.Prop,
		"C02": c02.Prop,
		"C03": c03.Prop,
		"C04": c04.Prop,
		"C05": c05.Prop,
		"C06": c06.Prop,
		"C07": c07.Prop,
		"C08": c08.Prop,
		"C09": c09.Prop,
		"C10": c10.Prop,
		"C11": c11.Prop,
		"C12": c12.Prop,
		"C13": c13.Prop,
		"C14": c14.Prop,
		"C15": c15.Prop,
		"C16": c16.Prop,
		"C17": c17.Prop,
		"C18": c18.Prop,
		"C19": c19.Prop,
	})
}
