// Command instr generates the go build -overlay used by the C20 check from /repo's CURRENT
// working tree: (1) "sync" and "sync/atomic" imports of the library packages are redirected to the
// scheduler-aware shims, (2) statement-level scheduling points are inserted into selected
// functions that touch plain shared memory, (3) the scheduler and shim packages are added to the
// module as virtual packages under github.com/tjfoc/gmsm/zzverif/. /repo itself is never modified.
//
// usage: instr <repo> <verif/mc> <outdir>   (writes <outdir>/overlay.json)
package main

import (
	"bytes"
	"encoding/json"
	"fmt"
	"go/ast"
	"go/format"
	"go/parser"
	"go/token"
	"os"
	"path/filepath"
	"strconv"
	"strings"
)

// packages whose sync imports are redirected
var shimDirs = []string{"sm2", "sm3", "sm4", "sm4/padding", "x509", "gmtls", "pkcs12"}

// statement-level points: file -> function names ("*" = every function in the file)
var stmtFuncs = map[string][]string{
	"sm4/sm4.go":  {"*"},
	"x509/ber.go": {"*"},
	"sm2/p256.go": {"initP256Sm2", "P256Sm2"},
	"sm3/sm3.go":  {"Write", "Sum", "Reset", "pad", "Sm3Sum", "New"},
}

const vschedPath = "github.com/tjfoc/gmsm/zzverif/vsched"

func main() {
	if len(os.Args) != 4 {
		fmt.Fprintln(os.Stderr, "usage: instr <repo> <verif/mc> <outdir>")
		os.Exit(2)
	}
	repo, mc, out := os.Args[1], os.Args[2], os.Args[3]
	overlay := map[string]string{}
	add := func(virtual, real string) { overlay[filepath.Join(repo, virtual)] = real }
	add("zzverif/vsched/vsched.go", filepath.Join(mc, "vsched/vsched.go"))
	add("zzverif/sync/sync.go", filepath.Join(mc, "vshim/sync/sync.go"))
	add("zzverif/atomic/atomic.go", filepath.Join(mc, "vshim/atomic/atomic.go"))
	nImports, nPoints := 0, 0
	for _, d := range shimDirs {
		files, _ := filepath.Glob(filepath.Join(repo, d, "*.go"))
		for _, f := range files {
			if strings.HasSuffix(f, "_test.go") {
				continue
			}
			rel, _ := filepath.Rel(repo, f)
			src, err := os.ReadFile(f)
			if err != nil {
				fatal(err)
			}
			fset := token.NewFileSet()
			af, err := parser.ParseFile(fset, f, src, parser.ParseComments)
			if err != nil {
				fatal(err)
			}
			changed := false
			for _, im := range af.Imports {
				p, _ := strconv.Unquote(im.Path.Value)
				switch p {
				case "sync":
					im.Path.Value = strconv.Quote("github.com/tjfoc/gmsm/zzverif/sync")
					changed = true
					nImports++
				case "sync/atomic":
					im.Path.Value = strconv.Quote("github.com/tjfoc/gmsm/zzverif/atomic")
					changed = true
					nImports++
				}
			}
			if fns, ok := stmtFuncs[filepath.ToSlash(rel)]; ok {
				want := map[string]bool{}
				for _, n := range fns {
					want[n] = true
				}
				n := 0
				for _, decl := range af.Decls {
					fd, ok := decl.(*ast.FuncDecl)
					if !ok || fd.Body == nil || !(want["*"] || want[fd.Name.Name]) {
						continue
					}
					n += instrumentBlock(fd.Body)
				}
				if n > 0 {
					addImport(af, vschedPath)
					changed = true
					nPoints += n
				}
			}
			if !changed {
				continue
			}
			// the file keeps its build constraints because comments are preserved
			var buf bytes.Buffer
			if err := format.Node(&buf, fset, af); err != nil {
				fatal(err)
			}
			dst := filepath.Join(out, strings.ReplaceAll(rel, "/", "__"))
			if err := os.WriteFile(dst, buf.Bytes(), 0o644); err != nil {
				fatal(err)
			}
			overlay[f] = dst
		}
	}
	b, _ := json.MarshalIndent(map[string]interface{}{"Replace": overlay}, "", " ")
	if err := os.WriteFile(filepath.Join(out, "overlay.json"), b, 0o644); err != nil {
		fatal(err)
	}
	fmt.Printf("instr: %d files overlaid, %d sync imports redirected, %d statement-level points inserted\n", len(overlay)-3, nImports, nPoints)
}

func fatal(err error) {
	fmt.Fprintln(os.Stderr, "instr:", err)
	os.Exit(1)
}

func pointStmt() ast.Stmt {
	return &ast.ExprStmt{X: &ast.CallExpr{Fun: &ast.SelectorExpr{X: ast.NewIdent("vsched"), Sel: ast.NewIdent("PointS")}}}
}

// instrumentBlock inserts a scheduling point before every statement, recursively.
func instrumentBlock(b *ast.BlockStmt) int {
	if b == nil {
		return 0
	}
	n := 0
	var out []ast.Stmt
	for _, st := range b.List {
		switch s := st.(type) {
		case *ast.DeclStmt:
			// declarations carry no shared access on their own
		default:
			out = append(out, pointStmt())
			n++
			_ = s
		}
		n += instrumentInner(st)
		out = append(out, st)
	}
	b.List = out
	return n
}

func instrumentInner(st ast.Stmt) int {
	switch s := st.(type) {
	case *ast.BlockStmt:
		return instrumentBlock(s)
	case *ast.IfStmt:
		n := instrumentBlock(s.Body)
		if s.Else != nil {
			n += instrumentInner(s.Else)
		}
		return n
	case *ast.ForStmt:
		return instrumentBlock(s.Body)
	case *ast.RangeStmt:
		return instrumentBlock(s.Body)
	case *ast.SwitchStmt:
		n := 0
		for _, c := range s.Body.List {
			cc := c.(*ast.CaseClause)
			blk := &ast.BlockStmt{List: cc.Body}
			n += instrumentBlock(blk)
			cc.Body = blk.List
		}
		return n
	case *ast.TypeSwitchStmt:
		n := 0
		for _, c := range s.Body.List {
			cc := c.(*ast.CaseClause)
			blk := &ast.BlockStmt{List: cc.Body}
			n += instrumentBlock(blk)
			cc.Body = blk.List
		}
		return n
	case *ast.LabeledStmt:
		return instrumentInner(s.Stmt)
	}
	return 0
}

func addImport(f *ast.File, path string) {
	for _, im := range f.Imports {
		if p, _ := strconv.Unquote(im.Path.Value); p == path {
			return
		}
	}
	spec := &ast.ImportSpec{Path: &ast.BasicLit{Kind: token.STRING, Value: strconv.Quote(path)}}
	for _, d := range f.Decls {
		if gd, ok := d.(*ast.GenDecl); ok && gd.Tok == token.IMPORT {
			gd.Specs = append(gd.Specs, spec)
			if !gd.Lparen.IsValid() {
				gd.Lparen = gd.Pos()
				gd.Rparen = gd.End()
			}
			f.Imports = append(f.Imports, spec)
			return
		}
	}
	gd := &ast.GenDecl{Tok: token.IMPORT, Specs: []ast.Spec{spec}}
	f.Decls = append([]ast.Decl{gd}, f.Decls...)
	f.Imports = append(f.Imports, spec)
}
