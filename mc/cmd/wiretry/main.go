package main

import (
	stdtls "crypto/tls"
	"fmt"
	"time"

	"github.com/tjfoc/gmsm/gmtls"

	"verif/mc/tlsk"
	"verif/mc/wire"
)

func main() {
	p := tlsk.Get()
	t0 := time.Now()
	for _, suite := range []uint16{gmtls.GMTLS_ECC_SM4_CBC_SM3, gmtls.GMTLS_ECC_SM4_GCM_SM3} {
		scfg := &gmtls.Config{GMSupport: &gmtls.GMSupport{}, Certificates: []gmtls.Certificate{p.Sign, p.Enc}, Time: tlsk.FixedTime, Rand: wire.NewRand(1), ClientAuth: gmtls.RequireAndVerifyClientCert, ClientCAs: p.Roots}
		ccfg := &gmtls.Config{GMSupport: &gmtls.GMSupport{}, RootCAs: p.Roots, ServerName: tlsk.ServerName, Time: tlsk.FixedTime, Rand: wire.NewRand(2), CipherSuites: []uint16{suite}, Certificates: []gmtls.Certificate{p.Client}}
		var cv, sv tlsk.View
		o := tlsk.Run(tlsk.GMEnd(ccfg, true, tlsk.App{Writes: [][]byte{[]byte("hello from client")}, Expect: 17}, &cv, nil),
			tlsk.GMEnd(scfg, false, tlsk.App{Writes: [][]byte{[]byte("hello from server")}, Expect: 17}, &sv, nil), &cv, &sv, nil)
		fmt.Println(o.Describe(), len(o.Records), "records", string(o.C.Read), string(o.S.Read), o.C.EKM != nil && string(o.C.EKM) == string(o.S.EKM))
	}
	fmt.Println(time.Since(t0))
	// TLS 1.2 with crypto/tls client against auto-switch server
	scfg, _ := gmtls.NewBasicAutoSwitchConfig(&p.Sign, &p.Enc, &p.ECDSA)
	scfg.Time, scfg.Rand = tlsk.FixedTime, wire.NewRand(3)
	for _, v := range []uint16{stdtls.VersionTLS12, stdtls.VersionTLS11, stdtls.VersionTLS10} {
		ccfg := &stdtls.Config{RootCAs: p.StdRoots, ServerName: tlsk.ServerName, Time: tlsk.FixedTime, MinVersion: v, MaxVersion: v}
		var cv, sv tlsk.View
		o := tlsk.Run(tlsk.StdEnd(ccfg, true, tlsk.App{Writes: [][]byte{[]byte("hi")}, Expect: 2}, &cv), tlsk.GMEnd(scfg, false, tlsk.App{Writes: [][]byte{[]byte("yo")}, Expect: 2}, &sv, nil), &cv, &sv, nil)
		fmt.Printf("std client %04x: %s\n", v, o.Describe())
	}
}
