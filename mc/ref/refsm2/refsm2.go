// Package refsm2 is an independent reference for SM2 (GM/T 0003.1-5): affine arithmetic over
// math/big on the recommended curve, signature, encryption, key exchange. It shares no code with
// /repo; the curve constants are typed in from GM/T 0003.5 and validated by init-time identities
// (p, n prime; G on the curve; n·G = infinity) and by the standard's worked signature example.
package refsm2

import (
	"bytes"
	"errors"
	"math/big"

	"verif/mc/ref/refsm3"
)

func hexInt(s string) *big.Int {
	v, ok := new(big.Int).SetString(s, 16)
	if !ok {
		panic("bad hex " + s)
	}
	return v
}

var (
	P  = hexInt("FFFFFFFEFFFFFFFFFFFFFFFFFFFFFFFFFFFFFFFF00000000FFFFFFFFFFFFFFFF")
	A  = hexInt("FFFFFFFEFFFFFFFFFFFFFFFFFFFFFFFFFFFFFFFF00000000FFFFFFFFFFFFFFFC")
	B  = hexInt("28E9FA9E9D9F5E344D5A9E4BCF6509A7F39789F515AB8F92DDBCBD414D940E93")
	N  = hexInt("FFFFFFFEFFFFFFFFFFFFFFFFFFFFFFFF7203DF6B21C6052B53BBF40939D54123")
	Gx = hexInt("32C4AE2C1F1981195F9904466A39C9948FE30BBFF2660BE1715A4589334C74C7")
	Gy = hexInt("BC3736A2F4F6779C59BDCEE36B692153D0A9877CC62A474002DF32E52139F0A0")
)

var (
	big0 = big.NewInt(0)
	big1 = big.NewInt(1)
	big2 = big.NewInt(2)
	big3 = big.NewInt(3)
)

// Point is an affine point; Inf marks the point at infinity.
type Point struct {
	X, Y *big.Int
	Inf  bool
}

var Infinity = Point{Inf: true}

func G() Point { return Point{X: new(big.Int).Set(Gx), Y: new(big.Int).Set(Gy)} }

func mod(x *big.Int) *big.Int { return x.Mod(x, P) }

// OnCurveB reports whether y^2 = x^3 + a x + b' (mod p) for coordinates in [0,p).
func OnCurveB(x, y, b *big.Int) bool {
	if x.Sign() < 0 || y.Sign() < 0 || x.Cmp(P) >= 0 || y.Cmp(P) >= 0 {
		return false
	}
	l := new(big.Int).Mul(y, y)
	mod(l)
	r := new(big.Int).Mul(x, x)
	r.Mul(r, x)
	r.Add(r, new(big.Int).Mul(A, x))
	r.Add(r, b)
	mod(r)
	return l.Cmp(r) == 0
}

func OnCurve(x, y *big.Int) bool { return OnCurveB(x, y, B) }

func (p Point) Equal(q Point) bool {
	if p.Inf || q.Inf {
		return p.Inf == q.Inf
	}
	return p.X.Cmp(q.X) == 0 && p.Y.Cmp(q.Y) == 0
}

func Neg(p Point) Point {
	if p.Inf {
		return p
	}
	y := new(big.Int).Sub(P, p.Y)
	mod(y)
	return Point{X: new(big.Int).Set(p.X), Y: y}
}

// Add is the affine group law (valid on any curve y^2=x^3+ax+b' since b is not used).
func Add(p, q Point) Point {
	if p.Inf {
		return q
	}
	if q.Inf {
		return p
	}
	var lam *big.Int
	if p.X.Cmp(q.X) == 0 {
		s := new(big.Int).Add(p.Y, q.Y)
		mod(s)
		if s.Sign() == 0 {
			return Infinity
		}
		// doubling: lambda = (3x^2 + a) / (2y)
		num := new(big.Int).Mul(p.X, p.X)
		num.Mul(num, big3)
		num.Add(num, A)
		den := new(big.Int).Mul(p.Y, big2)
		den.ModInverse(mod(den), P)
		lam = mod(num.Mul(num, den))
	} else {
		num := new(big.Int).Sub(q.Y, p.Y)
		den := new(big.Int).Sub(q.X, p.X)
		den.ModInverse(mod(den), P)
		lam = mod(num.Mul(mod(num), den))
	}
	x3 := new(big.Int).Mul(lam, lam)
	x3.Sub(x3, p.X)
	x3.Sub(x3, q.X)
	mod(x3)
	y3 := new(big.Int).Sub(p.X, x3)
	y3.Mul(y3, lam)
	y3.Sub(y3, p.Y)
	mod(y3)
	return Point{X: x3, Y: y3}
}

func Double(p Point) Point { return Add(p, p) }

// Mul is plain double-and-add, msb first; k >= 0 (not reduced: the group law does that).
func Mul(k *big.Int, p Point) Point {
	if k.Sign() < 0 {
		panic("negative scalar")
	}
	r := Infinity
	for i := k.BitLen() - 1; i >= 0; i-- {
		r = Double(r)
		if k.Bit(i) == 1 {
			r = Add(r, p)
		}
	}
	return r
}

func BaseMul(k *big.Int) Point { return Mul(k, G()) }

// Pad32 returns the fixed 32-byte big-endian encoding of a field element.
func Pad32(x *big.Int) []byte {
	b := x.Bytes()
	if len(b) > 32 {
		panic("coordinate too large")
	}
	out := make([]byte, 32)
	copy(out[32-len(b):], b)
	return out
}

// DefaultID is the default user ID "1234567812345678".
var DefaultID = []byte("1234567812345678")

// ZA = SM3(ENTL || ID || a || b || xG || yG || xA || yA), all 32-byte fixed width.
func ZA(pub Point, id []byte) []byte {
	var m []byte
	entl := len(id) * 8
	m = append(m, byte(entl>>8), byte(entl))
	m = append(m, id...)
	m = append(m, Pad32(A)...)
	m = append(m, Pad32(B)...)
	m = append(m, Pad32(Gx)...)
	m = append(m, Pad32(Gy)...)
	m = append(m, Pad32(pub.X)...)
	m = append(m, Pad32(pub.Y)...)
	return refsm3.SumSlice(m)
}

// E = SM3(ZA || M) as an integer.
func E(pub Point, id, msg []byte) *big.Int {
	return new(big.Int).SetBytes(refsm3.SumSlice(append(ZA(pub, id), msg...)))
}

// Sign computes (r,s) for the given nonce k per GM/T 0003.2 §6.1; ok=false means the standard
// demands another nonce (r=0, r+k=n or s=0).
func Sign(d, e, k *big.Int) (r, s *big.Int, ok bool) {
	p1 := BaseMul(k)
	r = new(big.Int).Add(e, p1.X)
	r.Mod(r, N)
	if r.Sign() == 0 || new(big.Int).Add(r, k).Cmp(N) == 0 {
		return nil, nil, false
	}
	inv := new(big.Int).Add(d, big1)
	inv.ModInverse(inv, N)
	s = new(big.Int).Mul(r, d)
	s.Sub(k, s)
	s.Mul(s, inv)
	s.Mod(s, N)
	if s.Sign() == 0 {
		return nil, nil, false
	}
	return r, s, true
}

// Verify per GM/T 0003.2 §7.1.
func Verify(pub Point, e, r, s *big.Int) bool {
	if r.Cmp(big1) < 0 || r.Cmp(N) >= 0 || s.Cmp(big1) < 0 || s.Cmp(N) >= 0 {
		return false
	}
	t := new(big.Int).Add(r, s)
	t.Mod(t, N)
	if t.Sign() == 0 {
		return false
	}
	pt := Add(BaseMul(s), Mul(t, pub))
	if pt.Inf {
		return false
	}
	R := new(big.Int).Add(e, pt.X)
	R.Mod(R, N)
	return R.Cmp(r) == 0
}

// KDF of GM/T 0003.4 §5.4.3 with SM3, klen in bytes.
func KDF(z []byte, klen int) []byte {
	var out []byte
	for ct := uint32(1); len(out) < klen; ct++ {
		m := append(append([]byte{}, z...), byte(ct>>24), byte(ct>>16), byte(ct>>8), byte(ct))
		out = append(out, refsm3.SumSlice(m)...)
	}
	return out[:klen]
}

func allZero(b []byte) bool {
	for _, v := range b {
		if v != 0 {
			return false
		}
	}
	return true
}

const (
	C1C3C2 = 0
	C1C2C3 = 1
)

// Encrypt per GM/T 0003.4 §6.1 for the given nonce; output 04||x1||y1||(C3||C2 or C2||C3).
// ok=false: t is all zero and the standard demands another nonce (or the message is empty and no
// nonce can ever succeed).
func Encrypt(pub Point, msg []byte, k *big.Int, mode int) (ct []byte, ok bool) {
	c1 := BaseMul(k)
	s := Mul(k, pub)
	if s.Inf {
		return nil, false
	}
	x2, y2 := Pad32(s.X), Pad32(s.Y)
	t := KDF(append(append([]byte{}, x2...), y2...), len(msg))
	if allZero(t) {
		return nil, false
	}
	c2 := make([]byte, len(msg))
	for i := range msg {
		c2[i] = msg[i] ^ t[i]
	}
	c3 := refsm3.SumSlice(append(append(append([]byte{}, x2...), msg...), y2...))
	ct = append([]byte{0x04}, Pad32(c1.X)...)
	ct = append(ct, Pad32(c1.Y)...)
	if mode == C1C2C3 {
		ct = append(ct, c2...)
		ct = append(ct, c3...)
	} else {
		ct = append(ct, c3...)
		ct = append(ct, c2...)
	}
	return ct, true
}

// Decrypt per GM/T 0003.4 §7.1.
func Decrypt(d *big.Int, ct []byte, mode int) ([]byte, error) {
	if len(ct) < 1+64+32 || ct[0] != 0x04 {
		return nil, errors.New("refsm2: ciphertext too short or not uncompressed")
	}
	x := new(big.Int).SetBytes(ct[1:33])
	y := new(big.Int).SetBytes(ct[33:65])
	if !OnCurve(x, y) {
		return nil, errors.New("refsm2: C1 not on curve")
	}
	rest := ct[65:]
	var c2, c3 []byte
	if mode == C1C2C3 {
		c2, c3 = rest[:len(rest)-32], rest[len(rest)-32:]
	} else {
		c3, c2 = rest[:32], rest[32:]
	}
	s := Mul(d, Point{X: x, Y: y})
	if s.Inf {
		return nil, errors.New("refsm2: S is infinity")
	}
	x2, y2 := Pad32(s.X), Pad32(s.Y)
	t := KDF(append(append([]byte{}, x2...), y2...), len(c2))
	if allZero(t) {
		return nil, errors.New("refsm2: t is zero")
	}
	m := make([]byte, len(c2))
	for i := range c2 {
		m[i] = c2[i] ^ t[i]
	}
	u := refsm3.SumSlice(append(append(append([]byte{}, x2...), m...), y2...))
	if !bytes.Equal(u, c3) {
		return nil, errors.New("refsm2: C3 mismatch")
	}
	return m, nil
}

// NonceFromBytes: k = int(b) mod (n-1) + 1 — how the library documents its reduction of the 40
// bytes it reads from the random source.
func NonceFromBytes(b []byte) *big.Int {
	k := new(big.Int).SetBytes(b)
	k.Mod(k, new(big.Int).Sub(N, big1))
	return k.Add(k, big1)
}

// KeyFromBytes: d = int(b) mod (n-2) + 1.
func KeyFromBytes(b []byte) *big.Int {
	k := new(big.Int).SetBytes(b)
	k.Mod(k, new(big.Int).Sub(N, big2))
	return k.Add(k, big1)
}

// BytesForNonce returns a 40-byte string that reduces to k (1 <= k <= n-1), with `lift` multiples
// of n-1 added so that the upper bytes are populated.
func BytesForNonce(k *big.Int, lift int64) []byte {
	v := new(big.Int).Sub(k, big1)
	v.Add(v, new(big.Int).Mul(big.NewInt(lift), new(big.Int).Sub(N, big1)))
	b := v.Bytes()
	out := make([]byte, 40)
	copy(out[40-len(b):], b)
	return out
}

// XBar: 2^w + (x & (2^w - 1)), w = 127.
func XBar(x *big.Int) *big.Int {
	w := uint(127)
	m := new(big.Int).Lsh(big1, w)
	r := new(big.Int).And(x, new(big.Int).Sub(m, big1))
	return r.Add(r, m)
}

// KXResult is the outcome of one side of the key exchange.
type KXResult struct {
	K      []byte
	S1, S2 []byte // S1 = SB (tag 0x02), S2 = SA (tag 0x03)
	V      Point
}

// KeyExchange per GM/T 0003.3 §6.1 for one party. self/peer long-term, rSelf (scalar) and RSelf /
// RPeer ephemeral points, idA/idB identities of initiator/responder, initiator tells which we are.
func KeyExchange(klen int, idA, idB []byte, dSelf *big.Int, pSelf, pPeer Point, rSelf *big.Int, RSelf, RPeer Point, initiator bool) (*KXResult, error) {
	if RPeer.Inf || !OnCurve(RPeer.X, RPeer.Y) {
		return nil, errors.New("refsm2: peer ephemeral point not on curve")
	}
	t := new(big.Int).Mul(XBar(RSelf.X), rSelf)
	t.Add(t, dSelf)
	t.Mod(t, N)
	v := Mul(t, Add(pPeer, Mul(XBar(RPeer.X), RPeer))) // cofactor h = 1
	if v.Inf {
		return nil, errors.New("refsm2: V is infinity")
	}
	var pA, pB, RA, RB Point
	if initiator {
		pA, pB, RA, RB = pSelf, pPeer, RSelf, RPeer
	} else {
		pA, pB, RA, RB = pPeer, pSelf, RPeer, RSelf
	}
	za, zb := ZA(pA, idA), ZA(pB, idB)
	xv, yv := Pad32(v.X), Pad32(v.Y)
	z := append(append(append(append([]byte{}, xv...), yv...), za...), zb...)
	k := KDF(z, klen)
	if allZero(k) {
		return nil, errors.New("refsm2: zero key")
	}
	var inner []byte
	inner = append(inner, xv...)
	inner = append(inner, za...)
	inner = append(inner, zb...)
	inner = append(inner, Pad32(RA.X)...)
	inner = append(inner, Pad32(RA.Y)...)
	inner = append(inner, Pad32(RB.X)...)
	inner = append(inner, Pad32(RB.Y)...)
	h := refsm3.SumSlice(inner)
	s1 := refsm3.SumSlice(append(append([]byte{0x02}, yv...), h...))
	s2 := refsm3.SumSlice(append(append([]byte{0x03}, yv...), h...))
	return &KXResult{K: k, S1: s1, S2: s2, V: v}, nil
}

func init() {
	if !P.ProbablyPrime(32) || !N.ProbablyPrime(32) {
		panic("refsm2: p or n not prime - constants mistyped")
	}
	if !OnCurve(Gx, Gy) {
		panic("refsm2: G not on curve - constants mistyped")
	}
	if !Mul(N, G()).Inf {
		panic("refsm2: n*G != infinity - constants mistyped")
	}
}
