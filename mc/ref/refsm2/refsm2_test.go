package refsm2

import (
	"encoding/hex"
	"math/big"
	"strings"
	"testing"
)

func h(s string) *big.Int { return hexInt(strings.ReplaceAll(s, " ", "")) }

// GM/T 0003.5 worked examples (recommended curve).
func TestStandardSignature(t *testing.T) {
	d := h("3945208F 7B2144B1 3F36E38A C6D39F95 88939369 2860B51A 42FB81EF 4DF7C5B8")
	k := h("59276E27 D506861A 16680F3A D9C02DCC EF3CC1FA 3CDBE4CE 6D54B80D EAC1BC21")
	pub := BaseMul(d)
	if pub.X.Cmp(h("09F9DF31 1E5421A1 50DD7D16 1E4BC5C6 72179FAD 1833FC07 6BB08FF3 56F35020")) != 0 {
		t.Fatalf("public key x = %X", pub.X)
	}
	e := E(pub, DefaultID, []byte("message digest"))
	r, s, ok := Sign(d, e, k)
	if !ok {
		t.Fatal("sign refused")
	}
	if r.Cmp(h("F5A03B06 48D2C463 0EEAC513 E1BB81A1 5944DA38 27D5B741 43AC7EAC EEE720B3")) != 0 {
		t.Fatalf("r = %X", r)
	}
	if s.Cmp(h("B1B6AA29 DF212FD8 763182BC 0D421CA1 BB9038FD 1F7F42D4 840B69C4 85BBC1AA")) != 0 {
		t.Fatalf("s = %X", s)
	}
	if !Verify(pub, e, r, s) {
		t.Fatal("verify failed")
	}
}

func TestStandardEncryption(t *testing.T) {
	d := h("3945208F 7B2144B1 3F36E38A C6D39F95 88939369 2860B51A 42FB81EF 4DF7C5B8")
	k := h("59276E27 D506861A 16680F3A D9C02DCC EF3CC1FA 3CDBE4CE 6D54B80D EAC1BC21")
	ct, ok := Encrypt(BaseMul(d), []byte("encryption standard"), k, C1C3C2)
	if !ok {
		t.Fatal("encrypt refused")
	}
	want := "0404EBFC718E8D1798620432268E77FEB6415E2EDE0E073C0F4F640ECD2E149A73E858F9D81E5430A57B36DAAB8F950A3C64E6EE6A63094D99283AFF767E124DF0" +
		"59983C18F809E262923C53AEC295D30383B54E39D609D160AFCB1908D0BD8766" + "21886CA989CA9C7D58087307CA93092D651EFA"
	if strings.ToUpper(hex.EncodeToString(ct)) != want {
		t.Fatalf("ciphertext = %X", ct)
	}
	m, err := Decrypt(d, ct, C1C3C2)
	if err != nil || string(m) != "encryption standard" {
		t.Fatalf("decrypt: %q %v", m, err)
	}
}

func TestGroup(t *testing.T) {
	g := G()
	for a := int64(0); a < 6; a++ {
		for b := int64(0); b < 6; b++ {
			l := BaseMul(big.NewInt(a + b))
			r := Add(BaseMul(big.NewInt(a)), BaseMul(big.NewInt(b)))
			if !l.Equal(r) {
				t.Fatalf("(%d+%d)G", a, b)
			}
		}
	}
	if !Add(g, Neg(g)).Inf {
		t.Fatal("G + -G")
	}
	nm1 := new(big.Int).Sub(N, big1)
	if !BaseMul(nm1).Equal(Neg(g)) {
		t.Fatal("(n-1)G != -G")
	}
}

func TestStandardKeyExchange(t *testing.T) {
	dA := h("81EB26E9 41BB5AF1 6DF11649 5F906952 72AE2CD6 3D6C4AE1 678418BE 48230029")
	dB := h("78512991 7D45A9EA 5437A593 56B82338 EAADDA6C EB199088 F14AE10D EFA229B5")
	rA := h("D4DE1547 4DB74D06 491C440D 305E0124 00990F3E 390C7E87 153C12DB 2EA60BB3")
	rB := h("7E071248 14B30948 9125EAED 10111316 4EBF0F34 58C5BD88 335C1F9D 596243D6")
	pA, pB, RA, RB := BaseMul(dA), BaseMul(dB), BaseMul(rA), BaseMul(rB)
	a, err := KeyExchange(16, DefaultID, DefaultID, dA, pA, pB, rA, RA, RB, true)
	if err != nil {
		t.Fatal(err)
	}
	b, err := KeyExchange(16, DefaultID, DefaultID, dB, pB, pA, rB, RB, RA, false)
	if err != nil {
		t.Fatal(err)
	}
	t.Logf("K=%X S1=%X S2=%X", a.K, a.S1, a.S2)
	if hex.EncodeToString(a.K) != hex.EncodeToString(b.K) || hex.EncodeToString(a.S1) != hex.EncodeToString(b.S1) || hex.EncodeToString(a.S2) != hex.EncodeToString(b.S2) {
		t.Fatal("sides differ")
	}
	if strings.ToUpper(hex.EncodeToString(a.K)) != "6C89347354DE2484C60B4AB1FDE4C6E5" {
		t.Fatalf("K = %X", a.K)
	}
	if strings.ToUpper(hex.EncodeToString(a.S1)) != "D3A0FE15DEE185CEAE907A6B595CC32A266ED7B3367E9983A896DC32FA20F8EB" {
		t.Fatalf("S1/SB = %X", a.S1)
	}
	if strings.ToUpper(hex.EncodeToString(a.S2)) != "18C7894B3816DF16CF07B05C5EC0BEF5D655D58F779CC1B400A4F3884644DB88" {
		t.Fatalf("S2/SA = %X", a.S2)
	}
}
