package refsm3

import (
	"encoding/hex"
	"testing"
)

func TestVectors(t *testing.T) {
	abcd := ""
	for i := 0; i < 16; i++ {
		abcd += "abcd"
	}
	for _, v := range []struct{ in, out string }{
		{"abc", "66c7f0f462eeedd9d1f2d46bdc10e4e24167c4875cf2f7a2297da02b8f4ba8e0"},
		{abcd, "debe9ff92275b8a138604889c18e5a4d6fdb70e5387e5765293dcba39c0c5732"},
		{"", "1ab21d8355cfa17f8e61194831e81a8f22bec8c728fefb747ed035eb5082aa2b"},
	} {
		d := Sum([]byte(v.in))
		if hex.EncodeToString(d[:]) != v.out {
			t.Fatalf("SM3(%q) = %x, want %s", v.in, d, v.out)
		}
	}
}
