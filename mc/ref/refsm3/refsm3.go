// Package refsm3 is an independent, deliberately plain implementation of the SM3 hash
// (GM/T 0004-2012) used as an oracle. It shares no code or tables with /repo.
package refsm3

import "hash"

var iv = [8]uint32{0x7380166f, 0x4914b2b9, 0x172442d7, 0xda8a0600, 0xa96f30bc, 0x163138aa, 0xe38dee4d, 0xb0fb0e4e}

func rotl(x uint32, n uint) uint32 {
	n %= 32
	if n == 0 {
		return x
	}
	return (x << n) | (x >> (32 - n))
}

func tj(j int) uint32 {
	if j <= 15 {
		return 0x79cc4519
	}
	return 0x7a879d8a
}

func ff(j int, x, y, z uint32) uint32 {
	if j <= 15 {
		return x ^ y ^ z
	}
	return (x & y) | (x & z) | (y & z)
}

func gg(j int, x, y, z uint32) uint32 {
	if j <= 15 {
		return x ^ y ^ z
	}
	return (x & y) | ((^x) & z)
}

func p0(x uint32) uint32 { return x ^ rotl(x, 9) ^ rotl(x, 17) }
func p1(x uint32) uint32 { return x ^ rotl(x, 15) ^ rotl(x, 23) }

// cf is the compression function CF(V, B).
func cf(v [8]uint32, b []byte) [8]uint32 {
	var w [68]uint32
	var wp [64]uint32
	for j := 0; j < 16; j++ {
		w[j] = uint32(b[4*j])<<24 | uint32(b[4*j+1])<<16 | uint32(b[4*j+2])<<8 | uint32(b[4*j+3])
	}
	for j := 16; j <= 67; j++ {
		w[j] = p1(w[j-16]^w[j-9]^rotl(w[j-3], 15)) ^ rotl(w[j-13], 7) ^ w[j-6]
	}
	for j := 0; j <= 63; j++ {
		wp[j] = w[j] ^ w[j+4]
	}
	A, B, C, D, E, F, G, H := v[0], v[1], v[2], v[3], v[4], v[5], v[6], v[7]
	for j := 0; j <= 63; j++ {
		ss1 := rotl(rotl(A, 12)+E+rotl(tj(j), uint(j)), 7)
		ss2 := ss1 ^ rotl(A, 12)
		tt1 := ff(j, A, B, C) + D + ss2 + wp[j]
		tt2 := gg(j, E, F, G) + H + ss1 + w[j]
		D = C
		C = rotl(B, 9)
		B = A
		A = tt1
		H = G
		G = rotl(F, 19)
		F = E
		E = p0(tt2)
	}
	return [8]uint32{A ^ v[0], B ^ v[1], C ^ v[2], D ^ v[3], E ^ v[4], F ^ v[5], G ^ v[6], H ^ v[7]}
}

// Sum returns the SM3 digest of m.
func Sum(m []byte) [32]byte {
	l := uint64(len(m)) * 8
	p := make([]byte, 0, len(m)+72)
	p = append(p, m...)
	p = append(p, 0x80)
	for len(p)%64 != 56 {
		p = append(p, 0)
	}
	for i := 7; i >= 0; i-- {
		p = append(p, byte(l>>(8*uint(i))))
	}
	v := iv
	for off := 0; off < len(p); off += 64 {
		v = cf(v, p[off:off+64])
	}
	var out [32]byte
	for i, x := range v {
		out[4*i], out[4*i+1], out[4*i+2], out[4*i+3] = byte(x>>24), byte(x>>16), byte(x>>8), byte(x)
	}
	return out
}

// SumSlice is Sum returning a slice.
func SumSlice(m []byte) []byte { d := Sum(m); return d[:] }

// New returns a hash.Hash that simply buffers the message (for HMAC/PBKDF2/PRF oracles).
func New() hash.Hash { return &h{} }

type h struct{ buf []byte }

func (s *h) Write(p []byte) (int, error) { s.buf = append(s.buf, p...); return len(p), nil }
func (s *h) Sum(in []byte) []byte        { d := Sum(s.buf); return append(in, d[:]...) }
func (s *h) Reset()                      { s.buf = nil }
func (s *h) Size() int                   { return 32 }
func (s *h) BlockSize() int              { return 64 }
