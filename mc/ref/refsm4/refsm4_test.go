package refsm4

import (
	"encoding/hex"
	"testing"
)

func TestVectors(t *testing.T) {
	k, _ := hex.DecodeString("0123456789abcdeffedcba9876543210")
	c := Must(k)
	b := append([]byte{}, k...)
	c.Encrypt(b, b)
	if hex.EncodeToString(b) != "681edf34d206965e86b3e94f536e4246" {
		t.Fatalf("single block: %x", b)
	}
	d := make([]byte, 16)
	c.Decrypt(d, b)
	if hex.EncodeToString(d) != "0123456789abcdeffedcba9876543210" {
		t.Fatalf("decrypt: %x", d)
	}
	b = append([]byte{}, k...)
	for i := 0; i < 1000000; i++ {
		c.Encrypt(b, b)
	}
	if hex.EncodeToString(b) != "595298c7c6fd271f0402f804c33d3f66" {
		t.Fatalf("1M iterations: %x", b)
	}
	if sbox[0] != 0xd6 || sbox[255] != 0x48 {
		t.Fatalf("sbox ends %x %x", sbox[0], sbox[255])
	}
}
