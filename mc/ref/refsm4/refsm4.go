// Package refsm4 is an independent, plain implementation of the SM4 block cipher
// (GM/T 0002-2012) used as an oracle. The S-box is not a table copied from anywhere: it is
// computed from its algebraic definition S(x) = A·inv(A·x + C) + C over GF(2^8) modulo
// x^8+x^7+x^6+x^5+x^4+x^2+1 (Liu et al., "Analysis of the SMS4 block cipher"), CK from its
// defining formula, and the whole cipher is anchored on the standard's two test vectors
// (one block, and 1 000 000 iterations which exercise every S-box entry).
package refsm4

import (
	"crypto/cipher"
	"errors"
)

var sbox [256]byte

func gmul(a, b int) int {
	r := 0
	for b != 0 {
		if b&1 != 0 {
			r ^= a
		}
		a <<= 1
		if a&0x100 != 0 {
			a ^= 0x1F5
		}
		b >>= 1
	}
	return r
}

var affRows = [8]string{"11100101", "11110010", "01111001", "10111100", "01011110", "00101111", "10010111", "11001011"}

func affine(x int) int {
	// row vector (msb first) times matrix, plus constant 0xD3
	out := 0
	for j := 0; j < 8; j++ {
		bit := 0
		for i := 0; i < 8; i++ {
			if (x>>(7-uint(i)))&1 == 1 && affRows[i][j] == '1' {
				bit ^= 1
			}
		}
		out |= bit << (7 - uint(j))
	}
	return out ^ 0xD3
}

func init() {
	var inv [256]int
	for a := 1; a < 256; a++ {
		for b := 1; b < 256; b++ {
			if gmul(a, b) == 1 {
				inv[a] = b
				break
			}
		}
	}
	for x := 0; x < 256; x++ {
		sbox[x] = byte(affine(inv[affine(x)]))
	}
}

func rotl(x uint32, n uint) uint32 { return x<<n | x>>(32-n) }

func tau(a uint32) uint32 {
	return uint32(sbox[a>>24])<<24 | uint32(sbox[(a>>16)&0xff])<<16 | uint32(sbox[(a>>8)&0xff])<<8 | uint32(sbox[a&0xff])
}

func tEnc(a uint32) uint32 {
	b := tau(a)
	return b ^ rotl(b, 2) ^ rotl(b, 10) ^ rotl(b, 18) ^ rotl(b, 24)
}

func tKey(a uint32) uint32 {
	b := tau(a)
	return b ^ rotl(b, 13) ^ rotl(b, 23)
}

var fk = [4]uint32{0xA3B1BAC6, 0x56AA3350, 0x677D9197, 0xB27022DC}

func ck(i int) uint32 {
	var v uint32
	for j := 0; j < 4; j++ {
		v = v<<8 | uint32(((4*i+j)*7)%256)
	}
	return v
}

// Cipher is a reference SM4 instance; it keeps no scratch state.
type Cipher struct{ rk [32]uint32 }

func be32(b []byte) uint32 {
	return uint32(b[0])<<24 | uint32(b[1])<<16 | uint32(b[2])<<8 | uint32(b[3])
}

// New returns a reference cipher for a 16-byte key.
func New(key []byte) (*Cipher, error) {
	if len(key) != 16 {
		return nil, errors.New("refsm4: key must be 16 bytes")
	}
	var k [36]uint32
	for i := 0; i < 4; i++ {
		k[i] = be32(key[4*i:]) ^ fk[i]
	}
	c := &Cipher{}
	for i := 0; i < 32; i++ {
		k[i+4] = k[i] ^ tKey(k[i+1]^k[i+2]^k[i+3]^ck(i))
		c.rk[i] = k[i+4]
	}
	return c, nil
}

// Must is New that panics on error.
func Must(key []byte) *Cipher {
	c, err := New(key)
	if err != nil {
		panic(err)
	}
	return c
}

func (c *Cipher) crypt(dst, src []byte, dec bool) {
	var x [36]uint32
	for i := 0; i < 4; i++ {
		x[i] = be32(src[4*i:])
	}
	for i := 0; i < 32; i++ {
		rk := c.rk[i]
		if dec {
			rk = c.rk[31-i]
		}
		x[i+4] = x[i] ^ tEnc(x[i+1]^x[i+2]^x[i+3]^rk)
	}
	for i := 0; i < 4; i++ {
		v := x[35-i]
		dst[4*i], dst[4*i+1], dst[4*i+2], dst[4*i+3] = byte(v>>24), byte(v>>16), byte(v>>8), byte(v)
	}
}

func (c *Cipher) BlockSize() int { return 16 }
func (c *Cipher) Encrypt(dst, src []byte) {
	var t [16]byte
	c.crypt(t[:], src[:16], false)
	copy(dst, t[:])
}
func (c *Cipher) Decrypt(dst, src []byte) {
	var t [16]byte
	c.crypt(t[:], src[:16], true)
	copy(dst, t[:])
}

var _ cipher.Block = (*Cipher)(nil)

// Pad returns a fresh PKCS#7-padded copy of p (block size 16).
func Pad(p []byte) []byte {
	n := 16 - len(p)%16
	out := make([]byte, len(p)+n)
	copy(out, p)
	for i := len(p); i < len(out); i++ {
		out[i] = byte(n)
	}
	return out
}
