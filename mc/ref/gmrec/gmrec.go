// Package gmrec is an independent decoder of GM/T 0024 (GMSSL 1.1) sessions: given the records
// captured on the wire and either the server's encryption private key or the master secret, it
// re-derives the master secret, the key block and the Finished values with its own SM3 PRF and
// decrypts/authenticates every protected record with its own SM4-CBC/HMAC-SM3 or SM4-GCM. It
// shares no code with /repo (built on refsm2/refsm3/refsm4 and the Go standard library).
package gmrec

import (
	"bytes"
	"crypto/cipher"
	"crypto/hmac"
	"encoding/asn1"
	"errors"
	"fmt"
	"math/big"

	"verif/mc/ref/refsm2"
	"verif/mc/ref/refsm3"
	"verif/mc/ref/refsm4"
)

const (
	SuiteCBC = 0xe013
	SuiteGCM = 0xe053
	Version  = 0x0101
)

// pHash is P_hash of RFC 5246 §5 with HMAC-SM3.
func pHash(secret, seed []byte, n int) []byte {
	var out []byte
	mac := func(parts ...[]byte) []byte {
		h := hmac.New(refsm3.New, secret)
		for _, p := range parts {
			h.Write(p)
		}
		return h.Sum(nil)
	}
	a := mac(seed)
	for len(out) < n {
		out = append(out, mac(a, seed)...)
		a = mac(a)
	}
	return out[:n]
}

// PRF(secret, label, seed) = P_SM3(secret, label || seed).
func PRF(secret []byte, label string, seed []byte, n int) []byte {
	return pHash(secret, append([]byte(label), seed...), n)
}

// Rec is one wire record with its direction.
type Rec struct {
	FromClient bool
	Type       byte
	Vers       uint16
	Body       []byte
}

// Session is the decoded view.
type Session struct {
	ClientRandom, ServerRandom []byte
	Suite                      uint16
	Master                     []byte
	Handshake                  [][]byte // plaintext handshake messages in order (both directions)
	ClientApp, ServerApp       []byte   // application data sent by client / server
	ClientFinishedOK           bool
	ServerFinishedOK           bool
	ClientAlerts, ServerAlerts [][]byte
	ExplicitIVs                [][]byte // CBC explicit IVs / GCM explicit nonces, client direction then server
	Notes                      []string
	Protected                  []RecInfo // every protected record in wire order
}

// RecInfo describes one protected record after independent decryption.
type RecInfo struct {
	FromClient bool
	Type       byte
	PlainLen   int
}

type dirState struct {
	on       bool
	seq      uint64
	mac, key []byte
	iv       []byte
}

type sm2Cipher struct {
	X, Y *big.Int
	Hash []byte
	C2   []byte
}

// Decode walks the captured records. encKey (may be nil) is the server's encryption private key
// used to recover the pre-master secret; master (may be nil) is the key-log value to compare with.
func Decode(recs []Rec, encKey *big.Int, master []byte) (*Session, error) {
	s := &Session{}
	var cl, sv dirState
	var hsBuf [2][]byte // reassembly buffers per direction (0 client, 1 server)
	var transcript []byte
	var pms []byte
	derive := func() error {
		if s.Master == nil {
			if pms != nil {
				s.Master = PRF(pms, "master secret", append(append([]byte{}, s.ClientRandom...), s.ServerRandom...), 48)
				if master != nil && !bytes.Equal(master, s.Master) {
					return fmt.Errorf("master secret derived independently from the decrypted pre-master secret differs from the key-log value")
				}
			} else if master != nil {
				s.Master = master
			} else {
				return errors.New("no way to obtain the master secret")
			}
		}
		macLen, keyLen, ivLen := 32, 16, 16
		if s.Suite == SuiteGCM {
			macLen, ivLen = 0, 4
		}
		kb := PRF(s.Master, "key expansion", append(append([]byte{}, s.ServerRandom...), s.ClientRandom...), 2*macLen+2*keyLen+2*ivLen)
		cl.mac, kb = kb[:macLen], kb[macLen:]
		sv.mac, kb = kb[:macLen], kb[macLen:]
		cl.key, kb = kb[:keyLen], kb[keyLen:]
		sv.key, kb = kb[:keyLen], kb[keyLen:]
		cl.iv, kb = kb[:ivLen], kb[ivLen:]
		sv.iv = kb[:ivLen]
		return nil
	}
	open := func(d *dirState, r Rec) ([]byte, error) {
		body := r.Body
		hdr := func(n int) []byte {
			return []byte{byte(d.seq >> 56), byte(d.seq >> 48), byte(d.seq >> 40), byte(d.seq >> 32), byte(d.seq >> 24), byte(d.seq >> 16), byte(d.seq >> 8), byte(d.seq), r.Type, byte(r.Vers >> 8), byte(r.Vers), byte(n >> 8), byte(n)}
		}
		defer func() { d.seq++ }()
		if s.Suite == SuiteGCM {
			if len(body) < 8+16 {
				return nil, errors.New("GCM record too short")
			}
			s.ExplicitIVs = append(s.ExplicitIVs, append([]byte{}, body[:8]...))
			g, _ := cipher.NewGCM(refsm4.Must(d.key))
			nonce := append(append([]byte{}, d.iv...), body[:8]...)
			pt, err := g.Open(nil, nonce, body[8:], hdr(len(body)-8-16))
			if err != nil {
				return nil, errors.New("GCM authentication failed (independent decoder)")
			}
			return pt, nil
		}
		if len(body) < 16+48 || len(body)%16 != 0 {
			return nil, errors.New("CBC record has an impossible length")
		}
		s.ExplicitIVs = append(s.ExplicitIVs, append([]byte{}, body[:16]...))
		pt := make([]byte, len(body)-16)
		cipher.NewCBCDecrypter(refsm4.Must(d.key), body[:16]).CryptBlocks(pt, body[16:])
		pl := int(pt[len(pt)-1])
		if pl+1+32 > len(pt) {
			return nil, errors.New("CBC padding longer than the record")
		}
		for _, b := range pt[len(pt)-1-pl:] {
			if int(b) != pl {
				return nil, errors.New("CBC padding bytes inconsistent")
			}
		}
		data, mac := pt[:len(pt)-1-pl-32], pt[len(pt)-1-pl-32:len(pt)-1-pl]
		h := hmac.New(refsm3.New, d.mac)
		h.Write(hdr(len(data)))
		h.Write(data)
		if !hmac.Equal(h.Sum(nil), mac) {
			return nil, errors.New("HMAC-SM3 mismatch (independent decoder)")
		}
		return data, nil
	}
	for i, r := range recs {
		d, di := &cl, 0
		if !r.FromClient {
			d, di = &sv, 1
		}
		body := r.Body
		if d.on {
			pt, err := open(d, r)
			if err != nil {
				return s, fmt.Errorf("record %d (%s, type %d): %v", i, map[bool]string{true: "client", false: "server"}[r.FromClient], r.Type, err)
			}
			body = pt
			s.Protected = append(s.Protected, RecInfo{r.FromClient, r.Type, len(pt)})
		}
		switch r.Type {
		case 20: // change cipher spec
			if s.Suite == 0 {
				return s, errors.New("ChangeCipherSpec before ServerHello")
			}
			if cl.key == nil {
				if err := derive(); err != nil {
					return s, err
				}
			}
			d.on, d.seq = true, 0
		case 21:
			if r.FromClient {
				s.ClientAlerts = append(s.ClientAlerts, body)
			} else {
				s.ServerAlerts = append(s.ServerAlerts, body)
			}
		case 23:
			if r.FromClient {
				s.ClientApp = append(s.ClientApp, body...)
			} else {
				s.ServerApp = append(s.ServerApp, body...)
			}
		case 22:
			hsBuf[di] = append(hsBuf[di], body...)
			for len(hsBuf[di]) >= 4 {
				n := int(hsBuf[di][1])<<16 | int(hsBuf[di][2])<<8 | int(hsBuf[di][3])
				if len(hsBuf[di]) < 4+n {
					break
				}
				msg := hsBuf[di][:4+n]
				hsBuf[di] = hsBuf[di][4+n:]
				s.Handshake = append(s.Handshake, append([]byte{}, msg...))
				switch msg[0] {
				case 1:
					if n < 34 {
						return s, errors.New("short ClientHello")
					}
					s.ClientRandom = append([]byte{}, msg[6:38]...)
				case 2:
					if n < 35 {
						return s, errors.New("short ServerHello")
					}
					s.ServerRandom = append([]byte{}, msg[6:38]...)
					sid := int(msg[38])
					s.Suite = uint16(msg[39+sid])<<8 | uint16(msg[40+sid])
				case 16:
					if encKey != nil && n > 2 {
						var c sm2Cipher
						if _, err := asn1.Unmarshal(msg[6:], &c); err == nil {
							raw := append([]byte{4}, refsm2.Pad32(c.X)...)
							raw = append(raw, refsm2.Pad32(c.Y)...)
							raw = append(raw, c.Hash...)
							raw = append(raw, c.C2...)
							if p, err := refsm2.Decrypt(encKey, raw, refsm2.C1C3C2); err == nil {
								pms = p
							} else {
								s.Notes = append(s.Notes, "pre-master secret could not be decrypted by the reference: "+err.Error())
							}
						}
					}
				case 20:
					if s.Master == nil {
						return s, errors.New("Finished before keys")
					}
					label := "client finished"
					if !r.FromClient {
						label = "server finished"
					}
					want := PRF(s.Master, label, refsm3.SumSlice(transcript), 12)
					ok := bytes.Equal(msg[4:], want)
					if r.FromClient {
						s.ClientFinishedOK = ok
					} else {
						s.ServerFinishedOK = ok
					}
					if !ok {
						return s, fmt.Errorf("%s verify_data differs from PRF(master, label, SM3(transcript))", label)
					}
				}
				transcript = append(transcript, msg...)
			}
		}
	}
	return s, nil
}
