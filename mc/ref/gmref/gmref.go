// Package gmref is an independent, scriptable GM/T 0024 (GMSSL 1.1, version 0x0101) endpoint for
// the two ECC suites (ECC_SM4_CBC_SM3 0xe013, ECC_SM4_GCM_SM3 0xe053), client and server role.
// It shares no code with /repo: message codecs are written here, the PRF/key block come from
// gmrec (SM3 of refsm3), signatures/encryption from refsm2, record protection from refsm4 and
// Go's crypto/cipher + crypto/hmac.
//
// It is a PEER, not a man in the middle: it holds keys, so whatever sequence of messages it is
// scripted to send (omitted, repeated, reordered, rewritten), its Finished is computed over the
// transcript that really happened and its records are correctly protected. A deviation is therefore
// visible to the endpoint under test only through the deviation itself, never through a broken
// transcript hash.
package gmref

import (
	"bytes"
	"crypto/cipher"
	"crypto/hmac"
	"crypto/rsa"
	"encoding/asn1"
	"errors"
	"fmt"
	"io"
	"math/big"

	"verif/mc/ref/refsm2"
)

const (
	Version  = 0x0101
	SuiteCBC = 0xe013
	SuiteGCM = 0xe053

	RecCCS   = 20
	RecAlert = 21
	RecHS    = 22
	RecApp   = 23

	HSClientHello  = 1
	HSServerHello  = 2
	HSCertificate  = 11
	HSServerKX     = 12
	HSCertRequest  = 13
	HSServerDone   = 14
	HSCertVerify   = 15
	HSClientKX     = 16
	HSFinished     = 20
	HSHelloRequest = 0
)

var DefaultUID = []byte("1234567812345678")

// Identity is what a peer holds.
type Identity struct {
	Certs   [][]byte // server: [signing certificate, encryption certificate, ...]; client: [certificate]
	SignKey *big.Int // private scalar used for ServerKeyExchange / CertificateVerify (nil: cannot sign)
	EncKey  *big.Int // server: private scalar decrypting the pre-master secret (nil: cannot decrypt)
	// TLS profile
	RSAKey *rsa.PrivateKey // server: decrypts the pre-master secret
	TLSKey interface{}     // client: *ecdsa.PrivateKey or *rsa.PrivateKey signing CertificateVerify
}

// Half is the protection state of one direction.
type Half struct {
	On          bool
	Seq         uint64
	MacKey, Key []byte
	IV          []byte
	Suite       uint16 // suite these keys belong to (0: the peer's current Suite)
}

func (h *Half) suiteOr(s uint16) uint16 {
	if h.Suite != 0 {
		return h.Suite
	}
	return s
}

// Alert is a received alert.
type Alert struct{ Level, Desc byte }

func (a *Alert) Error() string { return fmt.Sprintf("alert level=%d description=%d", a.Level, a.Desc) }

// Peer is one scripted endpoint.
type Peer struct {
	RW     io.ReadWriter
	Prof   *Profile // protocol variant (GM/T 0024 by default, see profile.go)
	Client bool
	Vers   uint16
	Suite  uint16
	Suites []uint16
	ID     Identity
	Rand   io.Reader

	RequestCert bool     // server role: send CertificateRequest
	CAs         [][]byte // server role: distinguished names in the request

	CR, SR, SessionID []byte
	PMS, Master       []byte
	Transcript        []byte
	Rd, Wr            Half
	hsIn              []byte
	PeerCerts         [][]byte
	CertRequested     bool
	PeerOffered       []uint16
	Seen, Sent        []string
	Checks            map[string]bool
	Received          []byte
	GotAlert          *Alert
	GotCloseNotify    bool
	PeerFinished      bool // a Finished message from the peer arrived under protection and verified
	SentFinished      bool
	PeerIVs           [][]byte // explicit IV / nonce of every protected record received
	OfferTicket       bool     // client: send the session_ticket extension (empty unless Ticket is set)
	Ticket            []byte   // client: ticket to present for resumption
	ResumeMaster      []byte   // client: master secret of the session the ticket belongs to
	ResumeSuite       uint16   // client: its cipher suite
	NewTicket         []byte   // client: ticket received in NewSessionTicket
	Resumed           bool     // client: the server echoed our session id, i.e. accepted the ticket
	sentSID           []byte
	HelloExt          []byte            // client: raw extensions appended to the ClientHello extension block
	ECDHPriv          []byte            // ECDHE profile: own ephemeral scalar
	ECDHPeer          []byte            // ECDHE profile: the peer's ephemeral point (uncompressed)
	ECDHOwn           []byte            // ECDHE profile: own ephemeral point (uncompressed)
	ServerExts        map[uint16][]byte // client: extensions found in the ServerHello
	keySuite          uint16
	Lenient           bool     // do not stop at a wrong peer Finished
	RawIn             [][]byte // every record received, as on the wire (header and body)
	RecLens           []int    // plaintext length of every protected record received
	Fragment          int      // >0: cut outgoing handshake messages into records of at most this many bytes
	Coalesce          bool     // pack consecutive handshake messages of a flight into one record

	// renegotiation (RFC 5746)
	ClientVerify, ServerVerify []byte                     // verify_data of the Finished messages seen last (own computed, peer's as verified)
	EchoRenegInfo              bool                       // server: answer with renegotiation_info (empty on the first handshake, client||server verify_data on later ones)
	RenegInfo                  func(honest []byte) []byte // server: replaces the honest renegotiation_info payload of a renegotiation
	ClientExts                 map[uint16][]byte          // server: extensions found in the last ClientHello
	Handshakes                 int                        // completed handshake count at the time of the last reset
	reneg, derived             bool
	nextWr, nextRd             Half
}

// New creates a peer with honest defaults.
func New(rw io.ReadWriter, client bool, id Identity, rnd io.Reader) *Peer {
	return &Peer{RW: rw, Prof: GM, Client: client, Vers: Version, Suites: []uint16{SuiteCBC, SuiteGCM}, ID: id, Rand: rnd, Checks: map[string]bool{}}
}

// ---------------------------------------------------------------------------------------------
// record layer

func seqHdr(seq uint64, typ byte, vers uint16, n int) []byte {
	return []byte{byte(seq >> 56), byte(seq >> 48), byte(seq >> 40), byte(seq >> 32), byte(seq >> 24), byte(seq >> 16), byte(seq >> 8), byte(seq), typ, byte(vers >> 8), byte(vers), byte(n >> 8), byte(n)}
}

// SealOpt shapes one protected record; the zero value is an honest record.
type SealOpt struct {
	ExtraPadBlocks int    // CBC: add 16*k padding bytes to the minimal padding (total padding length stays <= 255)
	CorruptPad     int    // CBC: 1+index of the padding byte (0 = first, padLen = the length byte) to XOR with PadMask
	PadMask        byte   // default 0x01
	SeqDelta       int64  // MAC / nonce computed with seq+delta
	FlipMAC        bool   // flip one bit of the MAC (CBC) or tag (GCM)
	IV             []byte // explicit IV (CBC, 16) / explicit nonce (GCM, 8) override
	MacType        byte   // content type used inside the MAC / additional data if non-zero
	KeepSeq        bool   // do not advance the write sequence number
}

// Seal returns the body of a protected record carrying data.
func (p *Peer) Seal(typ byte, data []byte, o SealOpt) []byte {
	h := &p.Wr
	seq := uint64(int64(h.Seq) + o.SeqDelta)
	mt := typ
	if o.MacType != 0 {
		mt = o.MacType
	}
	if !o.KeepSeq {
		h.Seq++
	}
	if p.Prof.GCM(h.suiteOr(p.Suite)) {
		nonce := []byte{byte(seq >> 56), byte(seq >> 48), byte(seq >> 40), byte(seq >> 32), byte(seq >> 24), byte(seq >> 16), byte(seq >> 8), byte(seq)}
		if o.IV != nil {
			nonce = o.IV
		}
		g, _ := cipher.NewGCM(p.Prof.Block(h.Key))
		ct := g.Seal(nil, append(append([]byte{}, h.IV...), nonce...), data, seqHdr(seq, mt, p.Vers, len(data)))
		if o.FlipMAC {
			ct[len(ct)-1] ^= 1
		}
		return append(append([]byte{}, nonce...), ct...)
	}
	m := hmac.New(p.Prof.MAC, h.MacKey)
	m.Write(seqHdr(seq, mt, p.Vers, len(data)))
	m.Write(data)
	mac := m.Sum(nil)
	if o.FlipMAC {
		mac[0] ^= 1
	}
	pt := append(append([]byte{}, data...), mac...)
	padLen := 15 - len(pt)%16 // number of padding bytes before the length byte
	padLen += 16 * o.ExtraPadBlocks
	for i := 0; i <= padLen; i++ {
		pt = append(pt, byte(padLen))
	}
	if o.CorruptPad > 0 {
		mask := o.PadMask
		if mask == 0 {
			mask = 1
		}
		pt[len(pt)-1-padLen+(o.CorruptPad-1)] ^= mask
	}
	if p.Prof.ImplicitIV {
		// TLS 1.0: the IV is the last ciphertext block of the previous record (initially from the key block)
		ct := make([]byte, len(pt))
		cipher.NewCBCEncrypter(p.Prof.Block(h.Key), h.IV).CryptBlocks(ct, pt)
		h.IV = append([]byte{}, ct[len(ct)-16:]...)
		return ct
	}
	iv := make([]byte, 16)
	if o.IV != nil {
		copy(iv, o.IV)
	} else {
		io.ReadFull(p.Rand, iv)
	}
	ct := make([]byte, len(pt))
	cipher.NewCBCEncrypter(p.Prof.Block(h.Key), iv).CryptBlocks(ct, pt)
	return append(iv, ct...)
}

// WriteRaw writes one record with the given body, unprotected as given.
func (p *Peer) WriteRaw(typ byte, body []byte) error {
	rec := append([]byte{typ, byte(p.Vers >> 8), byte(p.Vers), byte(len(body) >> 8), byte(len(body))}, body...)
	_, err := p.RW.Write(rec)
	return err
}

// WriteRecord writes data as one record, protected if the write side is keyed.
func (p *Peer) WriteRecord(typ byte, data []byte) error {
	if p.Wr.On {
		return p.WriteRaw(typ, p.Seal(typ, data, SealOpt{}))
	}
	return p.WriteRaw(typ, data)
}

func (p *Peer) open(typ byte, vers uint16, body []byte) ([]byte, error) {
	h := &p.Rd
	seq := h.Seq
	h.Seq++
	if p.Prof.GCM(h.suiteOr(p.Suite)) {
		if len(body) < 24 {
			return nil, errors.New("gmref: GCM record too short")
		}
		p.PeerIVs = append(p.PeerIVs, append([]byte{}, body[:8]...))
		g, _ := cipher.NewGCM(p.Prof.Block(h.Key))
		pt, err := g.Open(nil, append(append([]byte{}, h.IV...), body[:8]...), body[8:], seqHdr(seq, typ, vers, len(body)-24))
		if err != nil {
			return nil, errors.New("gmref: GCM tag does not verify")
		}
		return pt, nil
	}
	ml := p.Prof.MacLen
	var pt []byte
	if p.Prof.ImplicitIV {
		if len(body) < (ml+1+15)/16*16 || len(body)%16 != 0 {
			return nil, errors.New("gmref: CBC record of impossible length")
		}
		pt = make([]byte, len(body))
		cipher.NewCBCDecrypter(p.Prof.Block(h.Key), h.IV).CryptBlocks(pt, body)
		h.IV = append([]byte{}, body[len(body)-16:]...)
	} else {
		if len(body) < 16+(ml+1+15)/16*16 || len(body)%16 != 0 {
			return nil, errors.New("gmref: CBC record of impossible length")
		}
		p.PeerIVs = append(p.PeerIVs, append([]byte{}, body[:16]...))
		pt = make([]byte, len(body)-16)
		cipher.NewCBCDecrypter(p.Prof.Block(h.Key), body[:16]).CryptBlocks(pt, body[16:])
	}
	pl := int(pt[len(pt)-1])
	if pl+1+ml > len(pt) {
		return nil, errors.New("gmref: CBC padding longer than record")
	}
	for _, b := range pt[len(pt)-1-pl:] {
		if int(b) != pl {
			return nil, errors.New("gmref: CBC padding bytes inconsistent")
		}
	}
	data, mac := pt[:len(pt)-1-pl-ml], pt[len(pt)-1-pl-ml:len(pt)-1-pl]
	m := hmac.New(p.Prof.MAC, h.MacKey)
	m.Write(seqHdr(seq, typ, vers, len(data)))
	m.Write(data)
	if !hmac.Equal(m.Sum(nil), mac) {
		return nil, errors.New("gmref: HMAC-SM3 does not verify")
	}
	return data, nil
}

// ReadRecord reads one record and removes its protection.
func (p *Peer) ReadRecord() (typ byte, data []byte, err error) {
	hdr := make([]byte, 5)
	if _, err = io.ReadFull(p.RW, hdr); err != nil {
		return 0, nil, err
	}
	n := int(hdr[3])<<8 | int(hdr[4])
	body := make([]byte, n)
	if _, err = io.ReadFull(p.RW, body); err != nil {
		if err == io.EOF {
			err = io.ErrUnexpectedEOF
		}
		return 0, nil, err
	}
	typ = hdr[0]
	vers := uint16(hdr[1])<<8 | uint16(hdr[2])
	p.RawIn = append(p.RawIn, append(append([]byte{}, hdr...), body...))
	if p.Rd.On {
		if body, err = p.open(typ, vers, body); err != nil {
			return typ, nil, err
		}
		p.RecLens = append(p.RecLens, len(body))
	}
	return typ, body, nil
}

// ---------------------------------------------------------------------------------------------
// keys

// DeriveKeys computes master secret (if needed) and the key block.
func (p *Peer) DeriveKeys() error {
	if !p.Prof.Has(p.Suite) {
		return errors.New("gmref: no cipher suite agreed yet")
	}
	p.keySuite = p.Suite
	if p.Master == nil {
		if p.PMS == nil {
			return errors.New("gmref: no pre-master secret")
		}
		p.Master = p.Prof.PRF(p.PMS, "master secret", append(append([]byte{}, p.CR...), p.SR...), 48)
	}
	macLen, keyLen, ivLen := p.Prof.MacLen, 16, 16
	if p.Prof.KeyLen != nil {
		keyLen = p.Prof.KeyLen(p.Suite)
	}
	if p.Prof.GCM(p.Suite) {
		macLen, ivLen = 0, 4
	}
	kb := p.Prof.PRF(p.Master, "key expansion", append(append([]byte{}, p.SR...), p.CR...), 2*macLen+2*keyLen+2*ivLen)
	var c, s Half
	c.MacKey, kb = kb[:macLen], kb[macLen:]
	s.MacKey, kb = kb[:macLen], kb[macLen:]
	c.Key, kb = kb[:keyLen], kb[keyLen:]
	s.Key, kb = kb[:keyLen], kb[keyLen:]
	c.IV, kb = kb[:ivLen], kb[ivLen:]
	s.IV = kb[:ivLen]
	mine, theirs := c, s
	if !p.Client {
		mine, theirs = s, c
	}
	if p.reneg {
		// a later handshake on a protected connection: each direction switches at its own ChangeCipherSpec
		mine.Suite, theirs.Suite = p.Suite, p.Suite
		p.nextWr, p.nextRd, p.derived = mine, theirs, true
		return nil
	}
	p.Wr.MacKey, p.Wr.Key, p.Wr.IV = mine.MacKey, mine.Key, mine.IV
	p.Rd.MacKey, p.Rd.Key, p.Rd.IV = theirs.MacKey, theirs.Key, theirs.IV
	return nil
}

// VerifyData is PRF(master, label, SM3(transcript))[:12] for the given side.
func (p *Peer) VerifyData(client bool) []byte {
	label := "server finished"
	if client {
		label = "client finished"
	}
	return p.Prof.PRF(p.Master, label, p.Prof.Hash(p.Transcript), 12)
}

// EKM is the RFC 5705 exporter of the current session: PRF(master, label, client_random ||
// server_random [|| len(context) || context]).
func (p *Peer) EKM(label string, context []byte, n int) []byte {
	seed := append(append([]byte{}, p.CR...), p.SR...)
	if context != nil {
		seed = append(append(seed, byte(len(context)>>8), byte(len(context))), context...)
	}
	return p.Prof.PRF(p.Master, label, seed, n)
}

// ---------------------------------------------------------------------------------------------
// codecs

// HS frames a handshake message.
func HS(typ byte, body []byte) []byte {
	return append([]byte{typ, byte(len(body) >> 16), byte(len(body) >> 8), byte(len(body))}, body...)
}

func u16(v int) []byte { return []byte{byte(v >> 8), byte(v)} }
func u24(v int) []byte { return []byte{byte(v >> 16), byte(v >> 8), byte(v)} }

// ClientHelloBody builds a ClientHello body without extensions.
func ClientHelloBody(vers uint16, random, sid []byte, suites []uint16, comp []byte) []byte {
	b := append(u16(int(vers)), random...)
	b = append(b, byte(len(sid)))
	b = append(b, sid...)
	b = append(b, u16(2*len(suites))...)
	for _, s := range suites {
		b = append(b, u16(int(s))...)
	}
	b = append(b, byte(len(comp)))
	return append(b, comp...)
}

// ServerHelloBody builds a ServerHello body without extensions.
func ServerHelloBody(vers uint16, random, sid []byte, suite uint16, comp byte) []byte {
	b := append(u16(int(vers)), random...)
	b = append(b, byte(len(sid)))
	b = append(b, sid...)
	b = append(b, u16(int(suite))...)
	return append(b, comp)
}

// CertificateBody builds a Certificate body.
func CertificateBody(certs [][]byte) []byte {
	var l []byte
	for _, c := range certs {
		l = append(l, u24(len(c))...)
		l = append(l, c...)
	}
	return append(u24(len(l)), l...)
}

type sigASN struct{ R, S *big.Int }

// SignSM2 signs msg (ZA with the default user id prepended, as GM/T 0009 prescribes) and returns DER.
func SignSM2(d *big.Int, msg []byte, rnd io.Reader) []byte {
	pub := refsm2.BaseMul(d)
	e := refsm2.E(pub, DefaultUID, msg)
	for {
		kb := make([]byte, 32)
		io.ReadFull(rnd, kb)
		k := new(big.Int).SetBytes(kb)
		k.Mod(k, new(big.Int).Sub(refsm2.N, big.NewInt(1)))
		k.Add(k, big.NewInt(1))
		if r, s, ok := refsm2.Sign(d, e, k); ok {
			der, _ := asn1.Marshal(sigASN{r, s})
			return der
		}
	}
}

// VerifySM2 verifies a DER signature over msg.
func VerifySM2(pub refsm2.Point, msg, der []byte) bool {
	var sg sigASN
	rest, err := asn1.Unmarshal(der, &sg)
	if err != nil || len(rest) != 0 || sg.R == nil || sg.S == nil {
		return false
	}
	return refsm2.Verify(pub, refsm2.E(pub, DefaultUID, msg), sg.R, sg.S)
}

// SKEInput is client_random || server_random || uint24(len(enc cert)) || enc cert.
func SKEInput(cr, sr, encCert []byte) []byte {
	b := append(append([]byte{}, cr...), sr...)
	b = append(b, u24(len(encCert))...)
	return append(b, encCert...)
}

// SKEBody wraps a signature.
func SKEBody(sig []byte) []byte { return append(u16(len(sig)), sig...) }

type sm2CipherASN struct {
	X, Y *big.Int
	Hash []byte
	C2   []byte
}

// CKXBody encrypts pms to pub (GM/T 0009 ASN.1 form) and wraps it.
func CKXBody(pub refsm2.Point, pms []byte, rnd io.Reader) []byte {
	for {
		kb := make([]byte, 32)
		io.ReadFull(rnd, kb)
		k := new(big.Int).SetBytes(kb)
		k.Mod(k, new(big.Int).Sub(refsm2.N, big.NewInt(1)))
		k.Add(k, big.NewInt(1))
		ct, ok := refsm2.Encrypt(pub, pms, k, refsm2.C1C3C2)
		if !ok {
			continue
		}
		der, _ := asn1.Marshal(sm2CipherASN{new(big.Int).SetBytes(ct[1:33]), new(big.Int).SetBytes(ct[33:65]), ct[65:97], ct[97:]})
		return append(u16(len(der)), der...)
	}
}

// DecryptCKX recovers the pre-master secret from a ClientKeyExchange body.
func DecryptCKX(d *big.Int, body []byte) ([]byte, error) {
	if len(body) < 2 || int(body[0])<<8|int(body[1]) != len(body)-2 {
		return nil, errors.New("gmref: ClientKeyExchange length")
	}
	var c sm2CipherASN
	if rest, err := asn1.Unmarshal(body[2:], &c); err != nil || len(rest) != 0 {
		return nil, errors.New("gmref: ClientKeyExchange ASN.1")
	}
	raw := append([]byte{4}, refsm2.Pad32(c.X)...)
	raw = append(raw, refsm2.Pad32(c.Y)...)
	raw = append(raw, c.Hash...)
	raw = append(raw, c.C2...)
	return refsm2.Decrypt(d, raw, refsm2.C1C3C2)
}

// CertRequestBody builds the GM CertificateRequest (types, distinguished names).
func CertRequestBody(types []byte, cas [][]byte) []byte {
	b := append([]byte{byte(len(types))}, types...)
	var l []byte
	for _, ca := range cas {
		l = append(l, u16(len(ca))...)
		l = append(l, ca...)
	}
	b = append(b, u16(len(l))...)
	return append(b, l...)
}

// CertPublicKey extracts the SM2 public key from a certificate with its own DER walk.
func CertPublicKey(der []byte) (refsm2.Point, error) {
	var cert struct {
		TBS asn1.RawValue
		Alg asn1.RawValue
		Sig asn1.BitString
	}
	if _, err := asn1.Unmarshal(der, &cert); err != nil {
		return refsm2.Point{}, err
	}
	var tbs struct {
		Version  int `asn1:"optional,explicit,default:0,tag:0"`
		Serial   *big.Int
		SigAlg   asn1.RawValue
		Issuer   asn1.RawValue
		Validity asn1.RawValue
		Subject  asn1.RawValue
		SPKI     struct {
			Alg asn1.RawValue
			Key asn1.BitString
		}
		Rest []asn1.RawValue `asn1:"optional"`
	}
	if _, err := asn1.Unmarshal(cert.TBS.FullBytes, &tbs); err != nil {
		// tolerate trailing optional fields by a manual walk
		var seq asn1.RawValue
		if _, e2 := asn1.Unmarshal(cert.TBS.FullBytes, &seq); e2 != nil {
			return refsm2.Point{}, err
		}
		rest := seq.Bytes
		var items []asn1.RawValue
		for len(rest) > 0 {
			var it asn1.RawValue
			var e3 error
			if rest, e3 = asn1.Unmarshal(rest, &it); e3 != nil {
				return refsm2.Point{}, e3
			}
			items = append(items, it)
		}
		i := 0
		if len(items) > 0 && items[0].Class == 2 && items[0].Tag == 0 {
			i = 1
		}
		if len(items) < i+6 {
			return refsm2.Point{}, errors.New("gmref: short TBS")
		}
		if _, e4 := asn1.Unmarshal(items[i+5].FullBytes, &tbs.SPKI); e4 != nil {
			return refsm2.Point{}, e4
		}
	}
	k := tbs.SPKI.Key.Bytes
	if len(k) != 65 || k[0] != 4 {
		return refsm2.Point{}, errors.New("gmref: not an uncompressed 256-bit EC point")
	}
	pt := refsm2.Point{X: new(big.Int).SetBytes(k[1:33]), Y: new(big.Int).SetBytes(k[33:])}
	if !refsm2.OnCurve(pt.X, pt.Y) {
		return refsm2.Point{}, errors.New("gmref: key not on the SM2 curve")
	}
	return pt, nil
}

// ---------------------------------------------------------------------------------------------
// handshake layer

// SendHS appends msg (a framed handshake message) to the transcript and sends it.
func (p *Peer) SendHS(name string, msg []byte) error {
	p.Transcript = append(p.Transcript, msg...)
	p.Sent = append(p.Sent, name)
	if p.Fragment > 0 {
		for off := 0; off < len(msg); off += p.Fragment {
			end := off + p.Fragment
			if end > len(msg) {
				end = len(msg)
			}
			if err := p.WriteRecord(RecHS, msg[off:end]); err != nil {
				return err
			}
		}
		return nil
	}
	return p.WriteRecord(RecHS, msg)
}

// SendCCS sends ChangeCipherSpec and turns write protection on.
func (p *Peer) SendCCS() error {
	if err := p.WriteRecord(RecCCS, []byte{1}); err != nil {
		return err
	}
	p.Sent = append(p.Sent, "ChangeCipherSpec")
	if p.reneg {
		if !p.derived {
			if err := p.DeriveKeys(); err != nil {
				return err
			}
		}
		p.Wr = Half{On: true, MacKey: p.nextWr.MacKey, Key: p.nextWr.Key, IV: p.nextWr.IV, Suite: p.nextWr.Suite}
		return nil
	}
	if p.Wr.Key == nil || p.keySuite != p.Suite {
		if err := p.DeriveKeys(); err != nil {
			// a premature ChangeCipherSpec: no keys exist yet, so nothing can be switched on
			p.Sent = append(p.Sent, "(no keys yet: protection stays off)")
			return nil
		}
	}
	p.Wr.On, p.Wr.Seq = true, 0
	return nil
}

var ErrClosed = errors.New("gmref: peer sent close_notify")

// next returns the next handshake message (framed), handling CCS, alerts and application data.
func (p *Peer) next() ([]byte, error) {
	for {
		if len(p.hsIn) >= 4 {
			n := int(p.hsIn[1])<<16 | int(p.hsIn[2])<<8 | int(p.hsIn[3])
			if len(p.hsIn) >= 4+n {
				m := append([]byte{}, p.hsIn[:4+n]...)
				p.hsIn = p.hsIn[4+n:]
				return m, nil
			}
		}
		typ, data, err := p.ReadRecord()
		if err != nil {
			return nil, err
		}
		switch typ {
		case RecHS:
			p.hsIn = append(p.hsIn, data...)
		case RecCCS:
			if len(p.hsIn) != 0 {
				return nil, errors.New("gmref: ChangeCipherSpec inside a handshake message")
			}
			if p.reneg {
				if !p.derived {
					if err := p.DeriveKeys(); err != nil {
						return nil, err
					}
				}
				p.Rd = Half{On: true, MacKey: p.nextRd.MacKey, Key: p.nextRd.Key, IV: p.nextRd.IV, Suite: p.nextRd.Suite}
				p.Seen = append(p.Seen, "ChangeCipherSpec")
				break
			}
			if p.Rd.Key == nil || p.keySuite != p.Suite {
				if err := p.DeriveKeys(); err != nil {
					return nil, err
				}
			}
			p.Rd.On, p.Rd.Seq = true, 0
			p.Seen = append(p.Seen, "ChangeCipherSpec")
		case RecAlert:
			if len(data) == 2 {
				if data[1] == 0 {
					p.GotCloseNotify = true
					return nil, ErrClosed
				}
				p.GotAlert = &Alert{data[0], data[1]}
				return nil, p.GotAlert
			}
			return nil, errors.New("gmref: malformed alert")
		case RecApp:
			p.Received = append(p.Received, data...)
		default:
			return nil, fmt.Errorf("gmref: record type %d", typ)
		}
	}
}

var hsNames = map[byte]string{0: "HelloRequest", 1: "ClientHello", 2: "ServerHello", 4: "NewSessionTicket", 11: "Certificate", 12: "ServerKeyExchange", 13: "CertificateRequest", 14: "ServerHelloDone", 15: "CertificateVerify", 16: "ClientKeyExchange", 20: "Finished"}

// HSName names a handshake type.
func HSName(t byte) string {
	if n, ok := hsNames[t]; ok {
		return n
	}
	return fmt.Sprintf("handshake(%d)", t)
}

// ReadUntil consumes handshake messages up to and including one of type stop, digesting each.
func (p *Peer) ReadUntil(stop byte) error {
	for {
		m, err := p.next()
		if err != nil {
			return err
		}
		if err := p.digest(m); err != nil {
			return err
		}
		if m[0] == stop {
			return nil
		}
	}
}

func parseCerts(body []byte) ([][]byte, error) {
	if len(body) < 3 {
		return nil, errors.New("gmref: short Certificate")
	}
	n := int(body[0])<<16 | int(body[1])<<8 | int(body[2])
	body = body[3:]
	if n != len(body) {
		return nil, errors.New("gmref: Certificate list length")
	}
	var out [][]byte
	for len(body) > 0 {
		if len(body) < 3 {
			return nil, errors.New("gmref: Certificate entry")
		}
		l := int(body[0])<<16 | int(body[1])<<8 | int(body[2])
		if len(body) < 3+l {
			return nil, errors.New("gmref: Certificate entry length")
		}
		out = append(out, append([]byte{}, body[3:3+l]...))
		body = body[3+l:]
	}
	return out, nil
}

// digest records what an incoming handshake message says and verifies what can be verified.
func (p *Peer) digest(m []byte) error {
	t, body := m[0], m[4:]
	p.Seen = append(p.Seen, HSName(t))
	addTranscript := true
	switch t {
	case HSClientHello:
		if len(body) < 35 {
			return errors.New("gmref: short ClientHello")
		}
		p.CR = append([]byte{}, body[2:34]...)
		sl := int(body[34])
		if len(body) < 35+sl+2 {
			return errors.New("gmref: ClientHello session id")
		}
		p.SessionID = append([]byte{}, body[35:35+sl]...)
		rest := body[35+sl:]
		cl := int(rest[0])<<8 | int(rest[1])
		if len(rest) < 2+cl {
			return errors.New("gmref: ClientHello suites")
		}
		p.PeerOffered = nil
		for i := 0; i+1 < cl; i += 2 {
			p.PeerOffered = append(p.PeerOffered, uint16(rest[2+i])<<8|uint16(rest[3+i]))
		}
		p.ClientExts = map[uint16][]byte{}
		if rest = rest[2+cl:]; len(rest) >= 1 && len(rest) >= 1+int(rest[0])+2 {
			eb := rest[1+int(rest[0])+2:]
			for len(eb) >= 4 {
				t, l := uint16(eb[0])<<8|uint16(eb[1]), int(eb[2])<<8|int(eb[3])
				if len(eb) < 4+l {
					break
				}
				p.ClientExts[t] = append([]byte{}, eb[4:4+l]...)
				eb = eb[4+l:]
			}
		}
	case HSServerHello:
		if len(body) < 38 {
			return errors.New("gmref: short ServerHello")
		}
		p.SR = append([]byte{}, body[2:34]...)
		sl := int(body[34])
		if len(body) < 35+sl+3 {
			return errors.New("gmref: ServerHello session id")
		}
		p.SessionID = append([]byte{}, body[35:35+sl]...)
		p.Suite = uint16(body[35+sl])<<8 | uint16(body[36+sl])
		if v := uint16(body[0])<<8 | uint16(body[1]); v != p.Prof.Version {
			return fmt.Errorf("gmref: ServerHello version %04x", v)
		}
		if !p.Prof.Has(p.Suite) {
			return fmt.Errorf("gmref: ServerHello suite %04x", p.Suite)
		}
		p.ServerExts = map[uint16][]byte{}
		if rest := body[35+sl+3:]; len(rest) >= 2 {
			eb := rest[2:]
			for len(eb) >= 4 {
				t, l := uint16(eb[0])<<8|uint16(eb[1]), int(eb[2])<<8|int(eb[3])
				if len(eb) < 4+l {
					break
				}
				p.ServerExts[t] = append([]byte{}, eb[4:4+l]...)
				eb = eb[4+l:]
			}
		}
		if p.Client && p.Ticket != nil && len(p.sentSID) > 0 && bytes.Equal(p.SessionID, p.sentSID) {
			if p.Suite != p.ResumeSuite {
				return fmt.Errorf("gmref: session resumed with suite %04x, the original session used %04x", p.Suite, p.ResumeSuite)
			}
			p.Resumed = true
			p.Master = append([]byte{}, p.ResumeMaster...)
		}
	case 4: // NewSessionTicket
		if len(body) < 6 || int(body[4])<<8|int(body[5]) != len(body)-6 {
			return errors.New("gmref: malformed NewSessionTicket")
		}
		p.NewTicket = append([]byte{}, body[6:]...)
	case HSCertificate:
		cs, err := parseCerts(body)
		if err != nil {
			return err
		}
		p.PeerCerts = cs
	case HSServerKX:
		if p.Prof.CheckSKE != nil {
			p.Prof.CheckSKE(p, body)
		}
	case HSCertRequest:
		p.CertRequested = true
	case HSServerDone:
	case HSClientKX:
		pms, err := p.Prof.OpenCKX(p, body)
		if err != nil {
			return err
		}
		if pms != nil {
			p.PMS = pms
		}
	case HSCertVerify:
		if len(p.PeerCerts) > 0 {
			p.Prof.CheckCV(p, body)
		}
	case HSFinished:
		if !p.Rd.On {
			return errors.New("gmref: Finished before ChangeCipherSpec")
		}
		ok := bytes.Equal(body, p.VerifyData(!p.Client))
		p.Checks["peer-finished"] = ok
		if !ok && p.Lenient {
			break // a peer that does not care (it could not verify anyway): carry on
		}
		if !ok {
			return errors.New("gmref: peer Finished verify_data wrong")
		}
		p.PeerFinished = true
		if p.Client {
			p.ServerVerify = append([]byte{}, body...)
		} else {
			p.ClientVerify = append([]byte{}, body...)
		}
	case HSHelloRequest:
		addTranscript = false
	}
	if addTranscript {
		p.Transcript = append(p.Transcript, m...)
	}
	return nil
}

// ---------------------------------------------------------------------------------------------
// scripts

// Item is one thing a script sends.
type Item struct {
	Name  string
	Rec   byte                 // record type: RecHS (Build returns a framed message), RecCCS, RecApp, RecAlert
	Build func(p *Peer) []byte // evaluated when the item is sent, so it sees the transcript so far
	Raw   bool                 // send Build()'s bytes as a record body without protection and without transcript
	// Fragment: Build returns handshake BYTES (part of a message) that go out as one handshake record
	// under the current protection without touching the transcript (the builder accounts for it)
	Fragment bool
}

func (p *Peer) rnd(n int) []byte { b := make([]byte, n); io.ReadFull(p.Rand, b); return b }

// Items of the honest flows ------------------------------------------------------------------

func ItemClientHello() Item {
	return Item{Name: "ClientHello", Rec: RecHS, Build: func(p *Peer) []byte {
		if p.CR == nil {
			p.CR = p.rnd(32)
		}
		body := ClientHelloBody(p.Vers, p.CR, nil, p.Suites, []byte{0})
		var ext []byte
		if p.OfferTicket || p.Ticket != nil {
			if p.Ticket != nil && p.sentSID == nil {
				p.sentSID = p.rnd(16)
			}
			body = ClientHelloBody(p.Vers, p.CR, p.sentSID, p.Suites, []byte{0})
			ext = append([]byte{0, 35}, u16(len(p.Ticket))...)
			ext = append(ext, p.Ticket...)
		}
		ext = append(ext, p.HelloExt...)
		if len(ext) > 0 {
			body = append(body, u16(len(ext))...)
			body = append(body, ext...)
		}
		return HS(HSClientHello, body)
	}}
}

func ItemServerHello() Item {
	return Item{Name: "ServerHello", Rec: RecHS, Build: func(p *Peer) []byte {
		if p.SR == nil {
			p.SR = p.rnd(32)
		}
		if p.Suite == 0 {
			for _, s := range p.Suites {
				for _, o := range p.PeerOffered {
					if s == o && p.Suite == 0 {
						p.Suite = s
					}
				}
			}
			if p.Suite == 0 {
				p.Suite = p.Suites[0]
			}
		}
		body := ServerHelloBody(p.Vers, p.SR, nil, p.Suite, 0)
		if p.EchoRenegInfo {
			var info []byte
			if p.Handshakes > 0 {
				info = append(append([]byte{}, p.ClientVerify...), p.ServerVerify...)
				if p.RenegInfo != nil {
					info = p.RenegInfo(info)
				}
			}
			ext := append([]byte{0xff, 0x01}, u16(len(info)+1)...)
			ext = append(append(ext, byte(len(info))), info...)
			body = append(append(body, u16(len(ext))...), ext...)
		}
		return HS(HSServerHello, body)
	}}
}

func ItemCertificate() Item {
	return Item{Name: "Certificate", Rec: RecHS, Build: func(p *Peer) []byte { return HS(HSCertificate, CertificateBody(p.ID.Certs)) }}
}

func ItemServerKX() Item {
	return Item{Name: "ServerKeyExchange", Rec: RecHS, Build: func(p *Peer) []byte {
		if p.Prof.BuildSKE != nil {
			return HS(HSServerKX, p.Prof.BuildSKE(p))
		}
		enc := p.ID.Certs[len(p.ID.Certs)-1]
		if len(p.ID.Certs) >= 2 {
			enc = p.ID.Certs[1]
		}
		key := p.ID.SignKey
		if key == nil {
			key = big.NewInt(1) // a peer without a signing key can only guess
		}
		return HS(HSServerKX, SKEBody(SignSM2(key, SKEInput(p.CR, p.SR, enc), p.Rand)))
	}}
}

func ItemCertRequest() Item {
	return Item{Name: "CertificateRequest", Rec: RecHS, Build: func(p *Peer) []byte { return HS(HSCertRequest, p.Prof.CertReq(p)) }}
}

func ItemServerDone() Item {
	return Item{Name: "ServerHelloDone", Rec: RecHS, Build: func(p *Peer) []byte { return HS(HSServerDone, nil) }}
}

func ItemClientKX() Item {
	return Item{Name: "ClientKeyExchange", Rec: RecHS, Build: func(p *Peer) []byte {
		if p.PMS == nil {
			p.PMS = append([]byte{byte(p.Vers >> 8), byte(p.Vers)}, p.rnd(46)...)
		}
		return HS(HSClientKX, p.Prof.BuildCKX(p, p.PMS))
	}}
}

func ItemCertVerify() Item {
	return Item{Name: "CertificateVerify", Rec: RecHS, Build: func(p *Peer) []byte { return HS(HSCertVerify, p.Prof.SignCV(p)) }}
}

func ItemCCS() Item { return Item{Name: "ChangeCipherSpec", Rec: RecCCS} }

func ItemFinished() Item {
	return Item{Name: "Finished", Rec: RecHS, Build: func(p *Peer) []byte {
		if p.Master == nil {
			p.DeriveKeys()
		}
		if p.Master == nil {
			return HS(HSFinished, make([]byte, 12))
		}
		vd := p.VerifyData(p.Client)
		if p.Client {
			p.ClientVerify = vd
		} else {
			p.ServerVerify = vd
		}
		return HS(HSFinished, vd)
	}}
}

// Send emits one item.
func (p *Peer) Send(it Item) error {
	switch {
	case it.Raw:
		p.Sent = append(p.Sent, it.Name)
		return p.WriteRaw(it.Rec, it.Build(p))
	case it.Rec == RecCCS:
		if it.Build != nil {
			// a CCS with a non-standard body
			if err := p.WriteRecord(RecCCS, it.Build(p)); err != nil {
				return err
			}
			p.Sent = append(p.Sent, it.Name)
			if p.Wr.Key == nil || p.keySuite != p.Suite {
				if err := p.DeriveKeys(); err != nil {
					return err
				}
			}
			p.Wr.On, p.Wr.Seq = true, 0
			return nil
		}
		return p.SendCCS()
	case it.Rec == RecHS && it.Fragment:
		p.Sent = append(p.Sent, it.Name)
		if b := it.Build(p); len(b) > 0 {
			return p.WriteRecord(RecHS, b)
		}
		return nil // pure bookkeeping: nothing goes on the wire
	case it.Rec == RecHS:
		m := it.Build(p)
		if len(m) > 0 && m[0] == HSFinished {
			p.SentFinished = true
		}
		return p.SendHS(it.Name, m)
	default:
		p.Sent = append(p.Sent, it.Name)
		return p.WriteRecord(it.Rec, it.Build(p))
	}
}

// Flight numbers: client 0 = ClientHello, 1 = second flight; server 0 = hello flight, 1 = CCS+Finished.
// Mutate may rewrite the items of a flight before they are sent.
type Script struct {
	Mutate func(flight int, items []Item) []Item
	// Data runs after the handshake completed on this side (both Finished exchanged).
	Data func(p *Peer) error
	// SendClientCert: client role sends its certificate when asked (otherwise an empty list).
	SendClientCert bool
}

// Result of running a script.
type Result struct {
	Err       error // what stopped the script (nil: ran to the end)
	Completed bool  // this side sent its Finished and verified the peer's
	Stage     string
}

func (p *Peer) sendFlight(s *Script, n int, items []Item) error {
	if s.Mutate != nil {
		items = s.Mutate(n, items)
	}
	var pend []byte
	flush := func() error {
		b := pend
		pend = nil
		for off := 0; off < len(b); off += 16384 {
			end := off + 16384
			if end > len(b) {
				end = len(b)
			}
			if err := p.WriteRecord(RecHS, b[off:end]); err != nil {
				return err
			}
		}
		return nil
	}
	for _, it := range items {
		if p.Coalesce && it.Rec == RecHS && !it.Raw && !it.Fragment {
			m := it.Build(p)
			if len(m) > 0 && m[0] == HSFinished {
				p.SentFinished = true
			}
			p.Transcript = append(p.Transcript, m...)
			p.Sent = append(p.Sent, it.Name)
			pend = append(pend, m...)
			continue
		}
		if err := flush(); err != nil {
			return err
		}
		if err := p.Send(it); err != nil {
			return err
		}
	}
	return flush()
}

// ClientFlight1 is the honest second client flight given what the server asked for.
func (p *Peer) ClientFlight1(s *Script) []Item {
	var items []Item
	withCert := false
	if p.CertRequested {
		if s.SendClientCert && len(p.ID.Certs) > 0 {
			withCert = true
			items = append(items, ItemCertificate())
		} else {
			items = append(items, Item{Name: "Certificate", Rec: RecHS, Build: func(p *Peer) []byte { return HS(HSCertificate, CertificateBody(nil)) }})
		}
	}
	items = append(items, ItemClientKX())
	if withCert {
		items = append(items, ItemCertVerify())
	}
	return append(items, ItemCCS(), ItemFinished())
}

// ServerFlight0 is the honest server hello flight.
func (p *Peer) ServerFlight0() []Item {
	items := []Item{ItemServerHello(), ItemCertificate()}
	if p.Prof.HasSKE {
		items = append(items, ItemServerKX())
	}
	if p.RequestCert {
		items = append(items, ItemCertRequest())
	}
	return append(items, ItemServerDone())
}

// Run plays the role.
func (p *Peer) Run(s *Script) (res Result) {
	fail := func(stage string, err error) Result {
		return Result{Err: err, Stage: stage, Completed: p.PeerFinished && p.SentFinished}
	}
	if p.Client {
		if err := p.sendFlight(s, 0, []Item{ItemClientHello()}); err != nil {
			return fail("send flight 0", err)
		}
		if err := p.ReadUntil(HSServerHello); err != nil {
			return fail("read ServerHello", err)
		}
		if p.Resumed {
			// abbreviated handshake: the server finishes first, under the ORIGINAL master secret
			if err := p.ReadUntil(HSFinished); err != nil {
				return fail("read server Finished (resumption)", err)
			}
			if err := p.sendFlight(s, 1, []Item{ItemCCS(), ItemFinished()}); err != nil {
				return fail("send flight 1 (resumption)", err)
			}
		} else {
			if err := p.ReadUntil(HSServerDone); err != nil {
				return fail("read server hello flight", err)
			}
			if err := p.sendFlight(s, 1, p.ClientFlight1(s)); err != nil {
				return fail("send flight 1", err)
			}
			if err := p.ReadUntil(HSFinished); err != nil {
				return fail("read server Finished", err)
			}
		}
	} else {
		if err := p.ReadUntil(HSClientHello); err != nil {
			return fail("read ClientHello", err)
		}
		if err := p.sendFlight(s, 0, p.ServerFlight0()); err != nil {
			return fail("send flight 0", err)
		}
		if err := p.ReadUntil(HSFinished); err != nil {
			return fail("read client flight", err)
		}
		if err := p.sendFlight(s, 1, []Item{ItemCCS(), ItemFinished()}); err != nil {
			return fail("send flight 1", err)
		}
	}
	if s.Data != nil {
		if err := s.Data(p); err != nil {
			return fail("data", err)
		}
	}
	return Result{Completed: p.PeerFinished && p.SentFinished, Stage: "end"}
}

// ReadApp reads records until close_notify, an alert, an error or want bytes arrived (want<=0: until the end).
func (p *Peer) ReadApp(want int) error {
	for want <= 0 || len(p.Received) < want {
		typ, data, err := p.ReadRecord()
		if err != nil {
			return err
		}
		switch typ {
		case RecApp:
			p.Received = append(p.Received, data...)
		case RecAlert:
			if len(data) == 2 && data[1] == 0 {
				p.GotCloseNotify = true
				return ErrClosed
			}
			if len(data) == 2 {
				p.GotAlert = &Alert{data[0], data[1]}
				return p.GotAlert
			}
			return errors.New("gmref: malformed alert")
		default:
			return fmt.Errorf("gmref: record type %d in the data phase", typ)
		}
	}
	return nil
}

// CloseNotify sends the closing alert.
func (p *Peer) CloseNotify() error { return p.WriteRecord(RecAlert, []byte{1, 0}) }

// ---------------------------------------------------------------------------------------------
// renegotiation

// resetHandshake forgets the handshake that ended; record protection stays as it is.
func (p *Peer) resetHandshake() {
	p.Handshakes++
	if p.Wr.Suite == 0 {
		p.Wr.Suite = p.Suite
	}
	if p.Rd.Suite == 0 {
		p.Rd.Suite = p.Suite
	}
	p.Transcript, p.CR, p.SR, p.SessionID, p.PMS, p.Master = nil, nil, nil, nil, nil, nil
	p.Suite, p.PeerCerts, p.CertRequested = 0, nil, false
	p.PeerFinished, p.SentFinished = false, false
	p.ECDHPriv, p.ECDHPeer, p.ECDHOwn = nil, nil, nil
	p.reneg, p.derived = true, false
}

// ItemHelloRequest is the server's request for a new handshake (never part of a transcript).
func ItemHelloRequest() Item {
	return Item{Name: "HelloRequest", Rec: RecHS, Fragment: true, Build: func(*Peer) []byte { return HS(HSHelloRequest, nil) }}
}

// RenegotiateServer runs another full handshake on the protected connection in the server role:
// HelloRequest (when ask is set), then the flights 2 (hello flight) and 3 (ChangeCipherSpec,
// Finished) of the script's Mutate numbering.
func (p *Peer) RenegotiateServer(s *Script, ask bool) Result {
	fail := func(stage string, err error) Result {
		return Result{Err: err, Stage: stage, Completed: p.PeerFinished && p.SentFinished}
	}
	if ask {
		if err := p.Send(ItemHelloRequest()); err != nil {
			return fail("send HelloRequest", err)
		}
	}
	p.resetHandshake()
	if err := p.ReadUntil(HSClientHello); err != nil {
		return fail("read renegotiation ClientHello", err)
	}
	if err := p.sendFlight(s, 2, p.ServerFlight0()); err != nil {
		return fail("send flight 2", err)
	}
	if err := p.ReadUntil(HSFinished); err != nil {
		return fail("read renegotiation client flight", err)
	}
	if err := p.sendFlight(s, 3, []Item{ItemCCS(), ItemFinished()}); err != nil {
		return fail("send flight 3", err)
	}
	return Result{Completed: p.PeerFinished && p.SentFinished, Stage: "renegotiated"}
}
