package gmref

import (
	"crypto"
	"crypto/aes"
	"crypto/cipher"
	"crypto/ecdh"
	"crypto/ecdsa"
	"crypto/hmac"
	"crypto/md5"
	"crypto/rsa"
	"crypto/sha1"
	"crypto/sha256"
	"crypto/x509"
	"errors"
	"fmt"
	"hash"

	"verif/mc/ref/gmrec"
	"verif/mc/ref/refsm2"
	"verif/mc/ref/refsm3"
	"verif/mc/ref/refsm4"
)

// Profile is the protocol variant a Peer speaks. GM is GM/T 0024 with the two ECC suites; TLS12RSA
// is RFC 5246 with RSA key exchange (AES-128-CBC-SHA and AES-128-GCM-SHA256), built on the Go
// standard library primitives only - it is the independent keyed peer for the library's standard
// TLS path, where Go's crypto/tls can only play the honest peer.
type Profile struct {
	Name    string
	Version uint16
	Suites  []uint16
	GCM     func(suite uint16) bool
	PRF     func(secret []byte, label string, seed []byte, n int) []byte
	Hash    func(b []byte) []byte
	Block   func(key []byte) cipher.Block
	MAC     func() hash.Hash
	MacLen  int
	KeyLen  func(suite uint16) int // nil: 16 bytes for every suite
	HasSKE  bool
	// ImplicitIV: CBC records carry no explicit IV; each record is chained to the previous one (TLS 1.0)
	ImplicitIV bool
	// key exchange and client authentication
	BuildCKX func(p *Peer, pms []byte) []byte           // ClientKeyExchange body for the server in p.PeerCerts
	OpenCKX  func(p *Peer, body []byte) ([]byte, error) // pre-master secret (nil, nil when the peer holds no key)
	CheckSKE func(p *Peer, body []byte)
	BuildSKE func(p *Peer) []byte // ServerKeyExchange body (nil: the GM signature form)
	SignCV   func(p *Peer) []byte // CertificateVerify body over p.Transcript
	CheckCV  func(p *Peer, body []byte)
	CertReq  func(p *Peer) []byte
}

// Has reports whether the profile knows the suite.
func (pr *Profile) Has(s uint16) bool {
	for _, x := range pr.Suites {
		if x == s {
			return true
		}
	}
	return false
}

// GM is the GM/T 0024 profile.
var GM = &Profile{
	Name: "GMSSL", Version: Version, Suites: []uint16{SuiteCBC, SuiteGCM},
	GCM:    func(s uint16) bool { return s == SuiteGCM },
	PRF:    gmrec.PRF,
	Hash:   refsm3.SumSlice,
	Block:  func(k []byte) cipher.Block { return refsm4.Must(k) },
	MAC:    refsm3.New,
	MacLen: 32,
	HasSKE: true,
	BuildCKX: func(p *Peer, pms []byte) []byte {
		var pub refsm2.Point
		if len(p.PeerCerts) >= 2 {
			pub, _ = CertPublicKey(p.PeerCerts[1])
		}
		if pub.X == nil {
			pub = refsm2.G()
		}
		return CKXBody(pub, pms, p.Rand)
	},
	OpenCKX: func(p *Peer, body []byte) ([]byte, error) {
		if p.ID.EncKey == nil {
			return nil, nil
		}
		return DecryptCKX(p.ID.EncKey, body)
	},
	CheckSKE: func(p *Peer, body []byte) {
		if len(p.PeerCerts) >= 2 && len(body) >= 2 {
			if pub, err := CertPublicKey(p.PeerCerts[0]); err == nil {
				p.Checks["ske-signature"] = int(body[0])<<8|int(body[1]) == len(body)-2 && VerifySM2(pub, SKEInput(p.CR, p.SR, p.PeerCerts[1]), body[2:])
			}
		}
	},
	SignCV: func(p *Peer) []byte { return SKEBody(SignSM2(p.ID.SignKey, refsm3.SumSlice(p.Transcript), p.Rand)) },
	CheckCV: func(p *Peer, body []byte) {
		if len(body) >= 2 {
			if pub, err := CertPublicKey(p.PeerCerts[0]); err == nil {
				p.Checks["certverify-signature"] = int(body[0])<<8|int(body[1]) == len(body)-2 && VerifySM2(pub, refsm3.SumSlice(p.Transcript), body[2:])
			}
		}
	},
	CertReq: func(p *Peer) []byte { return CertRequestBody([]byte{1, 64}, p.CAs) },
}

// TLS 1.2 ---------------------------------------------------------------------------------------

const (
	TLS12       = 0x0303
	SuiteAESCBC = 0x002f // TLS_RSA_WITH_AES_128_CBC_SHA
	SuiteAESGCM = 0x009c // TLS_RSA_WITH_AES_128_GCM_SHA256
	hashSHA256  = 4
	sigECDSA    = 3
	sigRSA      = 1
)

func pSHA256(secret, seed []byte, n int) []byte {
	var out []byte
	mac := func(parts ...[]byte) []byte {
		h := hmac.New(sha256.New, secret)
		for _, p := range parts {
			h.Write(p)
		}
		return h.Sum(nil)
	}
	a := mac(seed)
	for len(out) < n {
		out = append(out, mac(a, seed)...)
		a = mac(a)
	}
	return out[:n]
}

func sum256(b []byte) []byte { d := sha256.Sum256(b); return d[:] }

// TLS12RSA is the RFC 5246 profile with RSA key exchange.
var TLS12RSA = &Profile{
	Name: "TLS1.2-RSA", Version: TLS12, Suites: []uint16{SuiteAESCBC, SuiteAESGCM},
	GCM: func(s uint16) bool { return s == SuiteAESGCM },
	PRF: func(secret []byte, label string, seed []byte, n int) []byte {
		return pSHA256(secret, append([]byte(label), seed...), n)
	},
	Hash: sum256,
	Block: func(k []byte) cipher.Block {
		b, err := aes.NewCipher(k)
		if err != nil {
			panic(err)
		}
		return b
	},
	MAC:    sha1.New,
	MacLen: 20,
	HasSKE: false,
	BuildCKX: func(p *Peer, pms []byte) []byte {
		if len(p.PeerCerts) == 0 {
			return []byte{0, 0}
		}
		c, err := x509.ParseCertificate(p.PeerCerts[0])
		if err != nil {
			return []byte{0, 0}
		}
		pub, ok := c.PublicKey.(*rsa.PublicKey)
		if !ok {
			return []byte{0, 0}
		}
		ct, err := rsa.EncryptPKCS1v15(p.Rand, pub, pms)
		if err != nil {
			return []byte{0, 0}
		}
		return append(u16(len(ct)), ct...)
	},
	OpenCKX: func(p *Peer, body []byte) ([]byte, error) {
		if p.ID.RSAKey == nil {
			return nil, nil
		}
		if len(body) < 2 || int(body[0])<<8|int(body[1]) != len(body)-2 {
			return nil, errors.New("gmref: ClientKeyExchange length")
		}
		return rsa.DecryptPKCS1v15(nil, p.ID.RSAKey, body[2:])
	},
	SignCV: func(p *Peer) []byte {
		d := sum256(p.Transcript)
		var sig []byte
		alg := byte(sigECDSA)
		switch k := p.ID.TLSKey.(type) {
		case *ecdsa.PrivateKey:
			sig, _ = ecdsa.SignASN1(p.Rand, k, d)
		case *rsa.PrivateKey:
			alg = sigRSA
			sig, _ = rsa.SignPKCS1v15(nil, k, crypto.SHA256, d)
		}
		return append([]byte{hashSHA256, alg}, SKEBody(sig)...)
	},
	CheckCV: func(p *Peer, body []byte) {
		if len(body) < 4 || body[0] != hashSHA256 {
			return
		}
		c, err := x509.ParseCertificate(p.PeerCerts[0])
		if err != nil {
			return
		}
		sig := body[4:]
		ok := int(body[2])<<8|int(body[3]) == len(sig)
		d := sum256(p.Transcript)
		switch k := c.PublicKey.(type) {
		case *ecdsa.PublicKey:
			ok = ok && body[1] == sigECDSA && ecdsa.VerifyASN1(k, d, sig)
		case *rsa.PublicKey:
			ok = ok && body[1] == sigRSA && rsa.VerifyPKCS1v15(k, crypto.SHA256, d, sig) == nil
		default:
			return
		}
		p.Checks["certverify-signature"] = ok
	},
	CertReq: func(p *Peer) []byte {
		b := []byte{2, 1, 64}                                         // rsa_sign, ecdsa_sign
		b = append(b, 0, 4, hashSHA256, sigECDSA, hashSHA256, sigRSA) // supported_signature_algorithms
		var l []byte
		for _, ca := range p.CAs {
			l = append(l, u16(len(ca))...)
			l = append(l, ca...)
		}
		b = append(b, u16(len(l))...)
		return append(b, l...)
	},
}

// NewTLS creates a TLS 1.2 (RSA key exchange) peer.
func NewTLS(rw interface {
	Read([]byte) (int, error)
	Write([]byte) (int, error)
}, client bool, id Identity, rnd interface{ Read([]byte) (int, error) }) *Peer {
	p := New(rw, client, id, rnd)
	p.Prof, p.Vers, p.Suites = TLS12RSA, TLS12, []uint16{SuiteAESCBC, SuiteAESGCM}
	return p
}

// UseTLS switches a peer to the TLS 1.2 RSA profile (call before Run).
func (p *Peer) UseTLS() {
	p.Prof, p.Vers, p.Suites = TLS12RSA, TLS12, []uint16{SuiteAESCBC, SuiteAESGCM}
}

// TLS 1.0 / 1.1 -----------------------------------------------------------------------------------

func pHash(newH func() hash.Hash, secret, seed []byte, n int) []byte {
	var out []byte
	mac := func(parts ...[]byte) []byte {
		h := hmac.New(newH, secret)
		for _, p := range parts {
			h.Write(p)
		}
		return h.Sum(nil)
	}
	a := mac(seed)
	for len(out) < n {
		out = append(out, mac(a, seed)...)
		a = mac(a)
	}
	return out[:n]
}

// prf10 is the TLS 1.0/1.1 PRF: P_MD5(S1, label+seed) XOR P_SHA1(S2, label+seed).
func prf10(secret []byte, label string, seed []byte, n int) []byte {
	ls := append([]byte(label), seed...)
	half := (len(secret) + 1) / 2
	s1, s2 := secret[:half], secret[len(secret)-half:]
	a, b := pHash(md5.New, s1, ls, n), pHash(sha1.New, s2, ls, n)
	for i := range a {
		a[i] ^= b[i]
	}
	return a
}

func md5sha1(b []byte) []byte {
	m, s := md5.Sum(b), sha1.Sum(b)
	return append(m[:], s[:]...)
}

// legacyTLS builds the RSA-key-exchange profile of TLS 1.0 (0x0301) or TLS 1.1 (0x0302) with
// TLS_RSA_WITH_AES_128_CBC_SHA.
func legacyTLS(version uint16) *Profile {
	pr := *TLS12RSA
	pr.Name = map[uint16]string{0x0301: "TLS1.0-RSA", 0x0302: "TLS1.1-RSA"}[version]
	pr.Version = version
	// the GCM suite does not exist below TLS 1.2; it is listed so that a scripted server can SELECT it
	// anyway (an endpoint must refuse that), never offered by default
	pr.Suites = []uint16{SuiteAESCBC, SuiteAESGCM}
	pr.PRF = prf10
	pr.Hash = md5sha1
	pr.ImplicitIV = version == 0x0301
	pr.SignCV = func(p *Peer) []byte {
		var sig []byte
		switch k := p.ID.TLSKey.(type) {
		case *ecdsa.PrivateKey:
			d := sha1.Sum(p.Transcript)
			sig, _ = ecdsa.SignASN1(p.Rand, k, d[:])
		case *rsa.PrivateKey:
			sig, _ = rsa.SignPKCS1v15(nil, k, crypto.MD5SHA1, md5sha1(p.Transcript))
		}
		return SKEBody(sig)
	}
	pr.CheckCV = func(p *Peer, body []byte) {
		if len(body) < 2 {
			return
		}
		c, err := x509.ParseCertificate(p.PeerCerts[0])
		if err != nil {
			return
		}
		sig := body[2:]
		ok := int(body[0])<<8|int(body[1]) == len(sig)
		switch k := c.PublicKey.(type) {
		case *ecdsa.PublicKey:
			d := sha1.Sum(p.Transcript)
			ok = ok && ecdsa.VerifyASN1(k, d[:], sig)
		case *rsa.PublicKey:
			ok = ok && rsa.VerifyPKCS1v15(k, crypto.MD5SHA1, md5sha1(p.Transcript), sig) == nil
		default:
			return
		}
		p.Checks["certverify-signature"] = ok
	}
	pr.CertReq = func(p *Peer) []byte { return CertRequestBody([]byte{1, 64}, p.CAs) }
	return &pr
}

// TLS10RSA and TLS11RSA are the legacy profiles.
var TLS10RSA, TLS11RSA = legacyTLS(0x0301), legacyTLS(0x0302)

// UseTLSVersion switches a peer to the RSA-key-exchange profile of the given TLS version.
func (p *Peer) UseTLSVersion(v uint16) {
	switch v {
	case 0x0301:
		p.Prof = TLS10RSA
	case 0x0302:
		p.Prof = TLS11RSA
	default:
		p.UseTLS()
		return
	}
	p.Vers, p.Suites = v, []uint16{SuiteAESCBC}
}

// TLS 1.2 ECDHE ------------------------------------------------------------------------------------

const (
	SuiteECDHERSAGCM   = 0xc02f // TLS_ECDHE_RSA_WITH_AES_128_GCM_SHA256
	SuiteECDHEECDSAGCM = 0xc02b // TLS_ECDHE_ECDSA_WITH_AES_128_GCM_SHA256
)

// ECDHEParams is the signed part of the ServerKeyExchange: named curve secp256r1 and the point.
func ECDHEParams(point []byte) []byte {
	return append([]byte{3, 0, 23, byte(len(point))}, point...)
}

// SignECDHE signs client_random || server_random || params (TLS 1.2, SHA-256) with the peer's key.
func SignECDHE(p *Peer, cr, sr, params []byte) (alg byte, sig []byte) {
	d := sum256(append(append(append([]byte{}, cr...), sr...), params...))
	switch k := p.ID.TLSKey.(type) {
	case *ecdsa.PrivateKey:
		sig, _ = ecdsa.SignASN1(p.Rand, k, d)
		return sigECDSA, sig
	case *rsa.PrivateKey:
		sig, _ = rsa.SignPKCS1v15(nil, k, crypto.SHA256, d)
		return sigRSA, sig
	}
	return sigRSA, nil
}

func ecdhGenerate(p *Peer) {
	if p.ECDHPriv != nil {
		return
	}
	for {
		k := p.rnd(32)
		priv, err := ecdh.P256().NewPrivateKey(k)
		if err == nil {
			p.ECDHPriv, p.ECDHOwn = k, priv.PublicKey().Bytes()
			return
		}
	}
}

func ecdhShared(priv, peer []byte) ([]byte, error) {
	k, err := ecdh.P256().NewPrivateKey(priv)
	if err != nil {
		return nil, err
	}
	pub, err := ecdh.P256().NewPublicKey(peer)
	if err != nil {
		return nil, err
	}
	return k.ECDH(pub)
}

// TLS12ECDHE is RFC 5246 + RFC 4492 with ephemeral ECDH on P-256 (AES-128-GCM), signed by the
// server's RSA or ECDSA key. The server identity's TLSKey signs the parameters.
var TLS12ECDHE = func() *Profile {
	pr := *TLS12RSA
	pr.Name = "TLS1.2-ECDHE"
	pr.Suites = []uint16{SuiteECDHERSAGCM, SuiteECDHEECDSAGCM}
	pr.GCM = func(uint16) bool { return true }
	pr.HasSKE = true
	pr.BuildSKE = func(p *Peer) []byte {
		ecdhGenerate(p)
		params := ECDHEParams(p.ECDHOwn)
		alg, sig := SignECDHE(p, p.CR, p.SR, params)
		b := append(append([]byte{}, params...), hashSHA256, alg)
		return append(b, SKEBody(sig)...)
	}
	pr.CheckSKE = func(p *Peer, body []byte) {
		if len(body) < 4 || body[0] != 3 || body[1] != 0 || body[2] != 23 {
			return
		}
		n := int(body[3])
		if len(body) < 4+n+4 {
			return
		}
		p.ECDHPeer = append([]byte{}, body[4:4+n]...)
		params, rest := body[:4+n], body[4+n:]
		sig := rest[4:]
		ok := rest[0] == hashSHA256 && int(rest[2])<<8|int(rest[3]) == len(sig)
		if len(p.PeerCerts) == 0 {
			return
		}
		c, err := x509.ParseCertificate(p.PeerCerts[0])
		if err != nil {
			return
		}
		d := sum256(append(append(append([]byte{}, p.CR...), p.SR...), params...))
		switch k := c.PublicKey.(type) {
		case *ecdsa.PublicKey:
			ok = ok && rest[1] == sigECDSA && ecdsa.VerifyASN1(k, d, sig)
		case *rsa.PublicKey:
			ok = ok && rest[1] == sigRSA && rsa.VerifyPKCS1v15(k, crypto.SHA256, d, sig) == nil
		}
		p.Checks["ske-signature"] = ok
	}
	pr.BuildCKX = func(p *Peer, pms []byte) []byte {
		// the pre-master secret is the shared x coordinate, not the random value the caller prepared
		ecdhGenerate(p)
		if p.ECDHPeer != nil {
			if z, err := ecdhShared(p.ECDHPriv, p.ECDHPeer); err == nil {
				p.PMS = z
			}
		}
		return append([]byte{byte(len(p.ECDHOwn))}, p.ECDHOwn...)
	}
	pr.OpenCKX = func(p *Peer, body []byte) ([]byte, error) {
		if len(body) < 1 || int(body[0]) != len(body)-1 {
			return nil, errors.New("gmref: ClientKeyExchange length")
		}
		if p.ECDHPriv == nil {
			return nil, nil
		}
		return ecdhShared(p.ECDHPriv, body[1:])
	}
	return &pr
}()

// UseECDHE switches a peer to the TLS 1.2 ECDHE profile.
func (p *Peer) UseECDHE() {
	p.Prof, p.Vers, p.Suites = TLS12ECDHE, TLS12, []uint16{SuiteECDHERSAGCM, SuiteECDHEECDSAGCM}
	// a client must announce the curve, the point format and the signature algorithms it accepts
	p.HelloExt = []byte{
		0, 10, 0, 4, 0, 2, 0, 23, // supported_groups: secp256r1
		0, 11, 0, 2, 1, 0, // ec_point_formats: uncompressed
		0, 13, 0, 6, 0, 4, hashSHA256, sigECDSA, hashSHA256, sigRSA, // signature_algorithms
	}
}

// GenerateECDH makes sure the peer has an ephemeral P-256 key (ECDHE profile).
func (p *Peer) GenerateECDH() { ecdhGenerate(p) }

// ECDHE with CBC suites, TLS 1.0 - 1.2 ---------------------------------------------------------------

const (
	SuiteECDHEECDSACBC  = 0xc009 // TLS_ECDHE_ECDSA_WITH_AES_128_CBC_SHA
	SuiteECDHERSACBC256 = 0xc014 // TLS_ECDHE_RSA_WITH_AES_256_CBC_SHA
)

// legacyECDHEDigest is what the server signs below TLS 1.2: MD5||SHA-1 for RSA, SHA-1 for ECDSA.
func legacyECDHEDigest(rsaKey bool, cr, sr, params []byte) []byte {
	in := append(append(append([]byte{}, cr...), sr...), params...)
	if rsaKey {
		return md5sha1(in)
	}
	d := sha1.Sum(in)
	return d[:]
}

// ecdheCBC builds the profile for ephemeral ECDH on P-256 with the CBC/SHA-1 suites at the given
// version: below TLS 1.2 the ServerKeyExchange signature has no algorithm bytes and uses the fixed
// digests of RFC 4492; everything else about the version (PRF, Finished, implicit IV, CertificateVerify)
// comes from the RSA profile of that version.
func ecdheCBC(version uint16) *Profile {
	base := TLS12RSA
	switch version {
	case 0x0301:
		base = TLS10RSA
	case 0x0302:
		base = TLS11RSA
	}
	pr := *base
	pr.Name = fmt.Sprintf("TLS%04x-ECDHE-CBC", version)
	pr.Suites = []uint16{SuiteECDHEECDSACBC, SuiteECDHERSACBC256}
	pr.GCM = func(uint16) bool { return false }
	pr.KeyLen = func(s uint16) int {
		if s == SuiteECDHERSACBC256 {
			return 32
		}
		return 16
	}
	pr.HasSKE = true
	pr.BuildCKX, pr.OpenCKX = TLS12ECDHE.BuildCKX, TLS12ECDHE.OpenCKX
	if version >= TLS12 {
		pr.BuildSKE, pr.CheckSKE = TLS12ECDHE.BuildSKE, TLS12ECDHE.CheckSKE
		return &pr
	}
	pr.BuildSKE = func(p *Peer) []byte {
		ecdhGenerate(p)
		params := ECDHEParams(p.ECDHOwn)
		var sig []byte
		switch k := p.ID.TLSKey.(type) {
		case *ecdsa.PrivateKey:
			sig, _ = ecdsa.SignASN1(p.Rand, k, legacyECDHEDigest(false, p.CR, p.SR, params))
		case *rsa.PrivateKey:
			sig, _ = rsa.SignPKCS1v15(nil, k, crypto.MD5SHA1, legacyECDHEDigest(true, p.CR, p.SR, params))
		}
		return append(append([]byte{}, params...), SKEBody(sig)...)
	}
	pr.CheckSKE = func(p *Peer, body []byte) {
		if len(body) < 4 || body[0] != 3 || body[1] != 0 || body[2] != 23 {
			return
		}
		n := int(body[3])
		if len(body) < 4+n+2 {
			return
		}
		p.ECDHPeer = append([]byte{}, body[4:4+n]...)
		params, rest := body[:4+n], body[4+n:]
		sig := rest[2:]
		ok := int(rest[0])<<8|int(rest[1]) == len(sig)
		if len(p.PeerCerts) == 0 {
			return
		}
		c, err := x509.ParseCertificate(p.PeerCerts[0])
		if err != nil {
			return
		}
		switch k := c.PublicKey.(type) {
		case *ecdsa.PublicKey:
			ok = ok && ecdsa.VerifyASN1(k, legacyECDHEDigest(false, p.CR, p.SR, params), sig)
		case *rsa.PublicKey:
			ok = ok && rsa.VerifyPKCS1v15(k, crypto.MD5SHA1, legacyECDHEDigest(true, p.CR, p.SR, params), sig) == nil
		}
		p.Checks["ske-signature"] = ok
	}
	return &pr
}

var ecdheCBCProfiles = map[uint16]*Profile{0x0301: ecdheCBC(0x0301), 0x0302: ecdheCBC(0x0302), 0x0303: ecdheCBC(0x0303)}

// UseECDHECBC switches a peer to ephemeral ECDH with the CBC/SHA-1 suites at TLS 1.0, 1.1 or 1.2.
func (p *Peer) UseECDHECBC(version uint16) {
	p.UseECDHE() // hello extensions
	p.Prof, p.Vers, p.Suites = ecdheCBCProfiles[version], version, []uint16{SuiteECDHEECDSACBC, SuiteECDHERSACBC256}
}
