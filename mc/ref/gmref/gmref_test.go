package gmref

import (
	"bytes"
	"math/big"
	"net"
	"testing"
)

type ctr struct{ n byte }

func (c *ctr) Read(p []byte) (int, error) {
	for i := range p {
		c.n = c.n*31 + 7
		p[i] = c.n
	}
	return len(p), nil
}

// gmref against itself: both suites, with and without client certificate request; this only shows
// the two roles are mutually consistent -- conformance with the library is established by the checks.
func TestSelf(t *testing.T) {
	for _, suite := range []uint16{SuiteCBC, SuiteGCM} {
		for _, auth := range []bool{false, true} {
			a, b := net.Pipe()
			// certificates are opaque here: the client needs the enc public key, so build a minimal
			// fake "certificate" is not possible without a DER; use PeerCerts injection instead.
			sd, ed, cd := big.NewInt(1234567), big.NewInt(7654321), big.NewInt(1111111)
			srv := New(b, false, Identity{Certs: [][]byte{{0x30, 0}, {0x30, 0}}, SignKey: sd, EncKey: ed}, &ctr{1})
			srv.Suites = []uint16{suite}
			srv.RequestCert = auth
			cli := New(a, true, Identity{Certs: [][]byte{{0x30, 0}}, SignKey: cd}, &ctr{2})
			_ = cli
			done := make(chan Result, 1)
			go func() {
				done <- srv.Run(&Script{Data: func(p *Peer) error {
					if err := p.ReadApp(5); err != nil {
						return err
					}
					return p.WriteRecord(RecApp, []byte("world"))
				}})
			}()
			// the client cannot extract a key from the fake certificate: ItemClientKX falls back to G,
			// so give the server d=1 semantics by using EncKey=1.
			srv.ID.EncKey = big.NewInt(1)
			r := cli.Run(&Script{SendClientCert: true, Data: func(p *Peer) error {
				if err := p.WriteRecord(RecApp, []byte("hello")); err != nil {
					return err
				}
				return p.ReadApp(5)
			}})
			sr := <-done
			if r.Err != nil || sr.Err != nil || !r.Completed || !sr.Completed {
				t.Fatalf("suite %04x auth %v: client %+v server %+v", suite, auth, r, sr)
			}
			if !bytes.Equal(cli.Received, []byte("world")) || !bytes.Equal(srv.Received, []byte("hello")) {
				t.Fatalf("data: %q %q", cli.Received, srv.Received)
			}
		}
	}
}
