// Package vsched is a cooperative, controlled scheduler for goroutines: exactly one managed
// thread runs at a time and at every scheduling point the running thread asks a Chooser which
// enabled thread runs next. It has no dependencies besides the standard library because it is
// injected (by go build -overlay) into the module under test as
// github.com/tjfoc/gmsm/zzverif/vsched, where instrumented library code calls Point/Wait.
package vsched

import (
	"fmt"
	"runtime/debug"
	"sync/atomic"
)

// Chooser owns the nondeterminism. n is the number of enabled threads in canonical order (the
// running thread first if it is still enabled, then ascending ids); preempt tells whether taking
// an alternative other than 0 switches away from a thread that could have continued.
type Chooser interface {
	Choose(n int, preempt bool, label string) int
}

type thread struct {
	id      int
	wake    chan struct{}
	cond    func() bool // non-nil while blocked
	done    bool
	panicV  interface{}
	stack   string
	result  interface{}
	started bool
}

// Sched is one controlled execution.
type Sched struct {
	ch        Chooser
	threads   []*thread
	cur       int
	Points    int
	MaxPoints int
	Deadlock  bool
	Horizon   bool
	Trace     []int8 // thread id chosen at every decision (for replay files / samples)
	finished  chan struct{}
	stmt      bool
}

var activeP atomic.Value // holds *Sched (possibly nil)

func loadActive() *Sched {
	v, _ := activeP.Load().(*Sched)
	return v
}

// Active reports whether a controlled execution is in progress (used by the shims to decide
// between modelling and passing through to the real primitive).
func Active() bool { return loadActive() != nil }

// Result of one thread.
type Result struct {
	Value interface{}
	Panic interface{}
	Stack string
}

// Run executes the bodies as threads 0..n-1 under the chooser. stmtPoints enables the
// statement-level scheduling points inserted by the instrumentation (PointS).
func Run(ch Chooser, stmtPoints bool, maxPoints int, bodies ...func() interface{}) (*Sched, []Result) {
	s := &Sched{ch: ch, MaxPoints: maxPoints, finished: make(chan struct{}), stmt: stmtPoints}
	for i := range bodies {
		s.threads = append(s.threads, &thread{id: i, wake: make(chan struct{}, 1)})
	}
	activeP.Store(s)
	for i, b := range bodies {
		t, body := s.threads[i], b
		go func() {
			<-t.wake
			defer func() {
				if r := recover(); r != nil {
					if _, ok := r.(abortT); !ok {
						t.panicV = r
						t.stack = string(debug.Stack())
					}
				}
				t.done = true
				s.schedule(true)
			}()
			t.result = body()
		}()
	}
	// start with thread 0 (the first decision is taken as a free choice among all threads)
	s.cur = -1
	s.schedule(true)
	<-s.finished
	activeP.Store((*Sched)(nil))
	res := make([]Result, len(s.threads))
	for i, t := range s.threads {
		res[i] = Result{t.result, t.panicV, t.stack}
	}
	return s, res
}

type abortT struct{}

func (s *Sched) enabled() []int {
	var out []int
	if s.cur >= 0 {
		t := s.threads[s.cur]
		if !t.done && (t.cond == nil || t.cond()) {
			out = append(out, s.cur)
		}
	}
	for i, t := range s.threads {
		if i == s.cur || t.done {
			continue
		}
		if t.cond == nil || t.cond() {
			out = append(out, i)
		}
	}
	return out
}

// schedule picks the next thread and wakes it (unless it is the caller). leaving is true when the
// caller cannot continue (finished or about to block) — then the switch costs nothing. It returns
// the chosen thread, or -1 when the execution is over (all done, deadlock, horizon).
func (s *Sched) schedule(leaving bool) int {
	select {
	case <-s.finished:
		return -1
	default:
	}
	en := s.enabled()
	if len(en) == 0 {
		for _, t := range s.threads {
			if !t.done {
				s.Deadlock = true
			}
		}
		s.abortAll()
		return -1
	}
	s.Points++
	if s.MaxPoints > 0 && s.Points > s.MaxPoints {
		s.Horizon = true
		s.abortAll()
		return -1
	}
	preempt := !leaving && en[0] == s.cur
	k := 0
	if len(en) > 1 {
		k = s.ch.Choose(len(en), preempt, "sched")
	}
	next := en[k]
	s.Trace = append(s.Trace, int8(next))
	prev := s.cur
	s.cur = next
	nt := s.threads[next]
	nt.cond = nil
	if next != prev {
		nt.wake <- struct{}{}
	}
	return next
}

func (s *Sched) abortAll() {
	select {
	case <-s.finished:
	default:
		close(s.finished)
	}
}

func (s *Sched) yield(leaving bool) {
	me := s.threads[s.cur]
	next := s.schedule(leaving)
	if next == me.id {
		return
	}
	if next == -1 {
		panic(abortT{})
	}
	select {
	case <-me.wake:
	case <-s.finished:
		panic(abortT{})
	}
}

// Point is a scheduling point at a synchronisation operation.
func Point() {
	s := loadActive()
	if s == nil {
		return
	}
	s.yield(false)
}

// PointS is a statement-level scheduling point (inserted by the source instrumentation).
func PointS() {
	s := loadActive()
	if s == nil || !s.stmt {
		return
	}
	s.yield(false)
}

// Wait blocks the calling thread until cond() holds. cond is evaluated by the scheduler while no
// thread runs, so it may read shared state without synchronisation.
func Wait(cond func() bool) {
	s := loadActive()
	if s == nil {
		panic("vsched.Wait outside a controlled execution")
	}
	if cond() {
		return
	}
	me := s.threads[s.cur]
	me.cond = cond
	s.yield(true)
}

// Describe renders a trace.
func (s *Sched) Describe() string {
	return fmt.Sprintf("points=%d deadlock=%v horizon=%v trace=%v", s.Points, s.Deadlock, s.Horizon, s.Trace)
}
