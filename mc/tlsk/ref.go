package tlsk

import (
	"fmt"

	"github.com/tjfoc/gmsm/gmtls"
	"verif/mc/ref/gmref"
	"verif/mc/wire"
)

// RefView is what a scripted reference peer reports.
type RefView struct {
	Peer  *gmref.Peer
	Res   gmref.Result
	Panic interface{}
}

// ServerIdentity is the genuine server identity as the reference peer holds it.
func ServerIdentity() gmref.Identity {
	p := Get()
	return gmref.Identity{Certs: [][]byte{p.Sign.Certificate[0], p.Enc.Certificate[0]}, SignKey: p.SignKey.D, EncKey: p.EncKey.D}
}

// ClientIdentity is the genuine client identity.
func ClientIdentity() gmref.Identity {
	p := Get()
	return gmref.Identity{Certs: [][]byte{p.Client.Certificate[0]}, SignKey: p.ClientKey.D}
}

// RefEnd returns a wire script running a gmref peer. setup may adjust the peer before it runs.
func RefEnd(client bool, id gmref.Identity, seed byte, setup func(p *gmref.Peer), script *gmref.Script, rv *RefView) func(e *wire.End) error {
	return func(e *wire.End) error {
		defer func() {
			if r := recover(); r != nil {
				rv.Panic = r
				e.Close()
			}
		}()
		p := gmref.New(e, client, id, wire.NewRand(seed))
		rv.Peer = p
		if setup != nil {
			setup(p)
		}
		rv.Res = p.Run(script)
		e.Close()
		return rv.Res.Err
	}
}

// RefOutcome is the result of a session between a library endpoint and a scripted reference peer.
type RefOutcome struct {
	Lib      View
	Ref      RefView
	Horizon  bool
	Stuck    []string // endpoints that never finished although their input ended
	LibStuck bool
	Records  []wire.Record
}

// PingPong is the default data phase of a reference peer: the client writes "ping" and expects
// "pong", then both close.
func PingPong(client bool) func(q *gmref.Peer) error {
	return func(q *gmref.Peer) error {
		if client {
			if err := q.WriteRecord(gmref.RecApp, []byte("ping")); err != nil {
				return err
			}
			if err := q.ReadApp(4); err != nil {
				return err
			}
			return q.CloseNotify()
		}
		if err := q.ReadApp(4); err != nil {
			return err
		}
		if err := q.WriteRecord(gmref.RecApp, []byte("pong")); err != nil {
			return err
		}
		return q.CloseNotify()
	}
}

// LibApp is the library side of PingPong.
func LibApp(client bool) App {
	if client {
		return App{Writes: [][]byte{[]byte("ping")}, Expect: 4}
	}
	return App{Writes: [][]byte{[]byte("pong")}, Expect: 4}
}

// RunLibVsRef runs one session: the library endpoint (client or server) against a reference peer
// in the other role.
func RunLibVsRef(libCfg *gmtls.Config, libIsClient bool, app App, id gmref.Identity, seed byte, setup func(p *gmref.Peer), script *gmref.Script, pol wire.Policy) *RefOutcome {
	ro := &RefOutcome{}
	var lv, dummy View
	lib := GMEnd(libCfg, libIsClient, app, &lv, nil)
	ref := RefEnd(!libIsClient, id, seed, setup, script, &ro.Ref)
	var o *Outcome
	if libIsClient {
		o = Run(lib, ref, &lv, &dummy, pol)
		ro.Lib = o.C
		ro.LibStuck = !o.ClientEnd.Done
	} else {
		o = Run(ref, lib, &dummy, &lv, pol)
		ro.Lib = o.S
		ro.LibStuck = !o.ServerEnd.Done
	}
	ro.Horizon, ro.Stuck, ro.Records = o.Horizon, o.Stuck, o.Records
	return ro
}

// Describe summarises a RefOutcome.
func (o *RefOutcome) Describe() string {
	v := o.Lib
	ref := "ref{not started}"
	if o.Ref.Peer != nil {
		ref = fmt.Sprintf("ref{completed=%v stage=%q err=%v sent=%v seen=%v checks=%v panic=%v}", o.Ref.Res.Completed, o.Ref.Res.Stage, o.Ref.Res.Err, o.Ref.Peer.Sent, o.Ref.Peer.Seen, o.Ref.Peer.Checks, o.Ref.Panic)
	}
	return fmt.Sprintf("library{complete=%v hsErr=%v read=%q readErr=%v panic=%v} %s stuck=%v horizon=%v", v.Complete, v.HandshakeErr, v.Read, v.ReadErr, v.Panic, ref, o.Stuck, o.Horizon)
}
