package tlsk

import (
	"verif/mc/ref/gmref"
	"verif/mc/wire"
)

// RefView is what a scripted reference peer reports.
type RefView struct {
	Peer  *gmref.Peer
	Res   gmref.Result
	Panic interface{}
}

// ServerIdentity is the genuine server identity as the reference peer holds it.
func ServerIdentity() gmref.Identity {
	p := Get()
	return gmref.Identity{Certs: [][]byte{p.Sign.Certificate[0], p.Enc.Certificate[0]}, SignKey: p.SignKey.D, EncKey: p.EncKey.D}
}

// ClientIdentity is the genuine client identity.
func ClientIdentity() gmref.Identity {
	p := Get()
	return gmref.Identity{Certs: [][]byte{p.Client.Certificate[0]}, SignKey: p.ClientKey.D}
}

// RefEnd returns a wire script running a gmref peer. setup may adjust the peer before it runs.
func RefEnd(client bool, id gmref.Identity, seed byte, setup func(p *gmref.Peer), script *gmref.Script, rv *RefView) func(e *wire.End) error {
	return func(e *wire.End) error {
		defer func() {
			if r := recover(); r != nil {
				rv.Panic = r
				e.Close()
			}
		}()
		p := gmref.New(e, client, id, wire.NewRand(seed))
		rv.Peer = p
		if setup != nil {
			setup(p)
		}
		rv.Res = p.Run(script)
		e.Close()
		return rv.Res.Err
	}
}
