package tlsk

import (
	"bytes"
	stdtls "crypto/tls"
	"fmt"
	"io"
	"net"

	"github.com/tjfoc/gmsm/gmtls"

	"verif/mc/wire"
)

// View is what one endpoint reports about a connection, in a library-neutral form.
type View struct {
	HandshakeErr         error
	Complete             bool
	Version              uint16
	Suite                uint16
	DidResume            bool
	Proto                string // negotiated application protocol
	OCSP                 []byte // stapled OCSP response as reported by ConnectionState
	PeerCerts            [][]byte
	EKM                  []byte
	TLSUnique            []byte // tls-unique channel binding as reported by ConnectionState
	SNI                  string // ConnectionState.ServerName (servers: the name the client asked for)
	EKMErr               error
	Read                 []byte // application bytes received
	ReadErr              error  // error that ended reading (io.EOF for a clean close)
	ReadAfterErr         []byte // bytes delivered by Read calls made AFTER the first error (must stay empty)
	ReadRecovered        bool   // a Read call after the first error returned a nil error
	TemporaryErrs        int    // temporary read errors that were retried (App.RetryTemporary)
	BeforeComplete       bool   // Implicit: ConnectionState().HandshakeComplete before any I/O
	VerifyHostnameBefore error  // Implicit: VerifyHostname before any I/O (must be an error)
	WriteErrs            []error
	Panic                interface{}
	Stack                string
	Done                 bool
	// connection state once the data phase is over (it differs from the above after a renegotiation)
	AfterComplete  bool
	AfterVersion   uint16
	AfterSuite     uint16
	AfterPeerCerts [][]byte
	AfterEKM       []byte
}

// App describes the data phase of one endpoint.
type App struct {
	Writes  [][]byte // written in order after the handshake
	ReadBuf int      // size of the buffer passed to Read (default 4096)
	Expect  int      // stop reading after this many bytes (0 = read until error/EOF)
	NoClose bool
	// CloseWriteAfterWrites: call CloseWrite (send close_notify, keep reading) after the writes
	CloseWriteAfterWrites bool
	// Implicit: the application never calls Handshake; its first Write or Read starts it
	Implicit bool
	// ReadFirst: read (until Expect) before writing
	ReadFirst bool
	// RetryTemporary: a Read that fails with a temporary net.Error (a timeout) is repeated
	RetryTemporary bool
	// Wrap, when set, is put between the library endpoint and the wire (transport fault injection)
	Wrap func(net.Conn) net.Conn
}

type conn interface {
	Handshake() error
	Read([]byte) (int, error)
	Write([]byte) (int, error)
	Close() error
}

func runApp(c conn, v *View, a App) {
	if a.ReadFirst {
		b := a
		b.ReadFirst, b.Writes, b.NoClose, b.CloseWriteAfterWrites = false, nil, true, false
		runApp(c, v, b)
		if v.ReadErr != nil {
			if !a.NoClose {
				c.Close()
			}
			return
		}
		a.Expect = -1
	}
	for _, w := range a.Writes {
		_, err := c.Write(w)
		v.WriteErrs = append(v.WriteErrs, err)
		if err != nil {
			break
		}
	}
	if a.CloseWriteAfterWrites {
		if cw, ok := c.(interface{ CloseWrite() error }); ok {
			v.WriteErrs = append(v.WriteErrs, cw.CloseWrite())
		}
	}
	bs := a.ReadBuf
	if bs == 0 {
		bs = 4096
	}
	buf := make([]byte, bs)
	for a.Expect == 0 || len(v.Read) < a.Expect {
		n, err := c.Read(buf)
		v.Read = append(v.Read, buf[:n]...)
		if ne, ok := err.(net.Error); ok && a.RetryTemporary && ne.Temporary() && v.TemporaryErrs < 1000 {
			v.TemporaryErrs++
			continue
		}
		if err != nil {
			v.ReadErr = err
			// the error must be sticky: two more Read calls, which must not deliver anything
			for k := 0; k < 2; k++ {
				n2, err2 := c.Read(buf)
				v.ReadAfterErr = append(v.ReadAfterErr, buf[:n2]...)
				if err2 == nil {
					v.ReadRecovered = true
				}
			}
			break
		}
		if n == 0 && len(v.Read) > 1<<24 {
			break
		}
	}
	if !a.NoClose {
		c.Close()
	}
}

// GMEnd returns a script for a gmtls endpoint.
func GMEnd(cfg *gmtls.Config, client bool, a App, v *View, keep **gmtls.Conn) func(e *wire.End) error {
	return func(e *wire.End) error {
		defer func() {
			if r := recover(); r != nil {
				v.Panic = r
				panic(r)
			}
		}()
		var c *gmtls.Conn
		var nc net.Conn = e
		if a.Wrap != nil {
			nc = a.Wrap(e)
		}
		if client {
			c = gmtls.Client(nc, cfg)
		} else {
			c = gmtls.Server(nc, cfg)
		}
		if keep != nil {
			*keep = c
		}
		if a.Implicit {
			st0 := c.ConnectionState()
			v.BeforeComplete = st0.HandshakeComplete
			c.OCSPResponse()
			v.VerifyHostnameBefore = c.VerifyHostname("x.invalid")
			runApp(c, v, a)
			st := c.ConnectionState()
			v.Complete, v.Version, v.Suite, v.DidResume = st.HandshakeComplete, st.Version, st.CipherSuite, st.DidResume
			for _, pc := range st.PeerCertificates {
				v.PeerCerts = append(v.PeerCerts, pc.Raw)
			}
			if !v.Complete {
				v.HandshakeErr = v.ReadErr
				for _, e := range v.WriteErrs {
					if e != nil {
						v.HandshakeErr = e
					}
				}
			}
			v.Done = true
			return nil
		}
		v.HandshakeErr = c.Handshake()
		st := c.ConnectionState()
		v.Complete, v.Version, v.Suite, v.DidResume = st.HandshakeComplete, st.Version, st.CipherSuite, st.DidResume
		v.Proto = st.NegotiatedProtocol
		v.OCSP = st.OCSPResponse
		v.TLSUnique = append([]byte{}, st.TLSUnique...)
		v.SNI = st.ServerName
		for _, pc := range st.PeerCertificates {
			v.PeerCerts = append(v.PeerCerts, pc.Raw)
		}
		if v.HandshakeErr != nil {
			c.Close()
			v.Done = true
			return v.HandshakeErr
		}
		v.EKM, v.EKMErr = st.ExportKeyingMaterial("EXPORTER-verif", []byte("ctx"), 32)
		runApp(c, v, a)
		st = c.ConnectionState()
		v.AfterComplete, v.AfterVersion, v.AfterSuite = st.HandshakeComplete, st.Version, st.CipherSuite
		for _, pc := range st.PeerCertificates {
			v.AfterPeerCerts = append(v.AfterPeerCerts, pc.Raw)
		}
		if st.HandshakeComplete {
			v.AfterEKM, _ = st.ExportKeyingMaterial("EXPORTER-verif", []byte("ctx"), 32)
		}
		v.Done = true
		return nil
	}
}

// StdEnd returns a script for a crypto/tls endpoint.
func StdEnd(cfg *stdtls.Config, client bool, a App, v *View) func(e *wire.End) error {
	return func(e *wire.End) error {
		defer func() {
			if r := recover(); r != nil {
				v.Panic = r
				panic(r)
			}
		}()
		var c *stdtls.Conn
		if client {
			c = stdtls.Client(e, cfg)
		} else {
			c = stdtls.Server(e, cfg)
		}
		v.HandshakeErr = c.Handshake()
		st := c.ConnectionState()
		v.Complete, v.Version, v.Suite, v.DidResume = st.HandshakeComplete, st.Version, st.CipherSuite, st.DidResume
		v.Proto = st.NegotiatedProtocol
		v.OCSP = st.OCSPResponse
		for _, pc := range st.PeerCertificates {
			v.PeerCerts = append(v.PeerCerts, pc.Raw)
		}
		if v.HandshakeErr != nil {
			c.Close()
			v.Done = true
			return v.HandshakeErr
		}
		v.EKM, v.EKMErr = st.ExportKeyingMaterial("EXPORTER-verif", []byte("ctx"), 32)
		runApp(c, v, a)
		v.Done = true
		return nil
	}
}

// Outcome of one session.
type Outcome struct {
	C, S      View
	Horizon   bool
	Stuck     []string
	Records   []wire.Record
	ClientEnd *wire.End
	ServerEnd *wire.End
}

// capture wraps a policy and records every record seen.
type capture struct {
	p    wire.Policy
	recs *[]wire.Record
}

func (c capture) Deliver(n *wire.Net, r wire.Record) [][]byte {
	*c.recs = append(*c.recs, r)
	return c.p.Deliver(n, r)
}
func (c capture) OnIdle(n *wire.Net) bool { return c.p.OnIdle(n) }

// Run executes one session with the given endpoint scripts under policy p.
func Run(client, server func(e *wire.End) error, cv, sv *View, p wire.Policy) *Outcome {
	n := wire.New()
	o := &Outcome{ClientEnd: n.A, ServerEnd: n.B}
	n.A.Start(client)
	n.B.Start(server)
	if p == nil {
		p = wire.Forward{}
	}
	o.Horizon = n.Run(capture{p, &o.Records}, 4000)
	o.Stuck = n.Stuck()
	if len(o.Stuck) > 0 || o.Horizon {
		n.Abort()
	}
	for _, x := range []struct {
		e *wire.End
		v *View
	}{{n.A, cv}, {n.B, sv}} {
		if x.e.Panic != nil {
			x.v.Panic = x.e.Panic
			x.v.Stack = x.e.Stack
		}
	}
	o.C, o.S = *cv, *sv
	return o
}

// Describe summarises an outcome for messages.
func (o *Outcome) Describe() string {
	d := func(v View) string {
		return fmt.Sprintf("complete=%v hsErr=%v vers=%04x suite=%04x resumed=%v read=%d readErr=%v panic=%v", v.Complete, v.HandshakeErr, v.Version, v.Suite, v.DidResume, len(v.Read), v.ReadErr, v.Panic)
	}
	return fmt.Sprintf("client{%s} server{%s} stuck=%v horizon=%v", d(o.C), d(o.S), o.Stuck, o.Horizon)
}

func Cat(bs [][]byte) []byte { return bytes.Join(bs, nil) }

var _ = io.EOF
