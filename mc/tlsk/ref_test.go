package tlsk

import (
	"fmt"
	"testing"

	"github.com/tjfoc/gmsm/gmtls"

	"verif/mc/ref/gmref"
	"verif/mc/wire"
)

func TestRefInterop(t *testing.T) {
	p := Get()
	for _, suite := range []uint16{0xe013, 0xe053} {
		for _, auth := range []gmtls.ClientAuthType{gmtls.NoClientCert, gmtls.RequestClientCert, gmtls.RequireAndVerifyClientCert} {
			// reference client against library server
			sc := &gmtls.Config{GMSupport: &gmtls.GMSupport{}, Certificates: []gmtls.Certificate{p.Sign, p.Enc}, Time: FixedTime, Rand: wire.NewRand(1), CipherSuites: []uint16{suite}, ClientAuth: auth, ClientCAs: p.Roots}
			var sv, dummy View
			var rv RefView
			data := func(q *gmref.Peer) error {
				if err := q.WriteRecord(gmref.RecApp, []byte("ping")); err != nil {
					return err
				}
				if err := q.ReadApp(4); err != nil {
					return err
				}
				return q.CloseNotify()
			}
			o := Run(RefEnd(true, ClientIdentity(), 7, func(q *gmref.Peer) { q.Suites = []uint16{suite} }, &gmref.Script{SendClientCert: true, Data: data}, &rv),
				GMEnd(sc, false, App{Writes: [][]byte{[]byte("pong")}, Expect: 4}, &sv, nil), &dummy, &sv, nil)
			if !o.S.Complete || !rv.Res.Completed || rv.Res.Err != nil || string(o.S.Read) != "ping" || string(rv.Peer.Received) != "pong" {
				t.Errorf("ref client / lib server suite %04x auth %v: %s ref=%+v seen=%v checks=%v", suite, auth, o.Describe(), rv.Res, rv.Peer.Seen, rv.Peer.Checks)
			}
			// library client against reference server
			cc := &gmtls.Config{GMSupport: &gmtls.GMSupport{}, RootCAs: p.Roots, ServerName: ServerName, Time: FixedTime, Rand: wire.NewRand(2), CipherSuites: []uint16{suite}, Certificates: []gmtls.Certificate{p.Client}}
			var cv View
			var rs RefView
			sdata := func(q *gmref.Peer) error {
				if err := q.ReadApp(4); err != nil {
					return err
				}
				if err := q.WriteRecord(gmref.RecApp, []byte("pong")); err != nil {
					return err
				}
				return q.CloseNotify()
			}
			o = Run(GMEnd(cc, true, App{Writes: [][]byte{[]byte("ping")}, Expect: 4}, &cv, nil),
				RefEnd(false, ServerIdentity(), 9, func(q *gmref.Peer) { q.Suites = []uint16{suite}; q.RequestCert = auth != gmtls.NoClientCert }, &gmref.Script{Data: sdata}, &rs), &cv, &dummy, nil)
			if !o.C.Complete || !rs.Res.Completed || rs.Res.Err != nil || string(o.C.Read) != "pong" || string(rs.Peer.Received) != "ping" {
				t.Errorf("lib client / ref server suite %04x auth %v: %s ref=%+v seen=%v checks=%v", suite, auth, o.Describe(), rs.Res, rs.Peer.Seen, rs.Peer.Checks)
			} else {
				t.Logf("ok %04x %v: server saw %v checks %v; client-side ref saw %v checks %v", suite, auth, rs.Peer.Seen, rs.Peer.Checks, rv.Peer.Seen, rv.Peer.Checks)
			}
		}
	}
}

func TestRefResumption(t *testing.T) {
	p := Get()
	for _, suite := range []uint16{0xe013, 0xe053} {
		sc := &gmtls.Config{GMSupport: &gmtls.GMSupport{}, Certificates: []gmtls.Certificate{p.Sign, p.Enc}, Time: FixedTime, Rand: wire.NewRand(1), CipherSuites: []uint16{suite}}
		sc.SetSessionTicketKeys([][32]byte{{1, 2, 3}})
		var ticket, master []byte
		for round := 0; round < 3; round++ {
			var sv, dummy View
			var rv RefView
			setup := func(q *gmref.Peer) {
				q.Suites = []uint16{suite}
				q.OfferTicket = true
				if ticket != nil {
					q.Ticket, q.ResumeMaster, q.ResumeSuite = ticket, master, suite
				}
			}
			o := Run(RefEnd(true, gmref.Identity{}, byte(7+round), setup, &gmref.Script{Data: PingPong(true)}, &rv),
				GMEnd(sc, false, LibApp(false), &sv, nil), &dummy, &sv, nil)
			t.Logf("suite %04x round %d: resumed(ref)=%v resumed(lib)=%v complete=%v/%v newTicket=%d seen=%v err=%v", suite, round, rv.Peer.Resumed, o.S.DidResume, o.S.Complete, rv.Res.Completed, len(rv.Peer.NewTicket), rv.Peer.Seen, rv.Res.Err)
			if !o.S.Complete || !rv.Res.Completed || string(o.S.Read) != "ping" || string(rv.Peer.Received) != "pong" {
				t.Fatalf("round %d failed: %s", round, o.Describe())
			}
			if round > 0 && (!rv.Peer.Resumed || !o.S.DidResume) {
				t.Fatalf("round %d did not resume", round)
			}
			if rv.Peer.NewTicket != nil {
				ticket = rv.Peer.NewTicket
			}
			master = rv.Peer.Master
		}
	}
}

func TestRefTLSInterop(t *testing.T) {
	p := Get()
	for _, suite := range []uint16{gmref.SuiteAESCBC, gmref.SuiteAESGCM} {
		for _, auth := range []gmtls.ClientAuthType{gmtls.NoClientCert, gmtls.RequireAndVerifyClientCert} {
			sc := &gmtls.Config{Certificates: []gmtls.Certificate{p.RSA}, Time: FixedTime, Rand: wire.NewRand(1), CipherSuites: []uint16{suite}, ClientAuth: auth, ClientCAs: p.StdRootsG, MinVersion: 0x0303, MaxVersion: 0x0303}
			var sv, dummy View
			var rv RefView
			id := gmref.Identity{Certs: [][]byte{p.StdClient.Certificate[0]}, TLSKey: p.StdClient.PrivateKey}
			o := Run(RefEnd(true, id, 7, func(q *gmref.Peer) { q.UseTLS(); q.Suites = []uint16{suite} }, &gmref.Script{SendClientCert: true, Data: PingPong(true)}, &rv),
				GMEnd(sc, false, LibApp(false), &sv, nil), &dummy, &sv, nil)
			if !o.S.Complete || !rv.Res.Completed || string(o.S.Read) != "ping" || string(rv.Peer.Received) != "pong" {
				t.Errorf("TLS ref client / lib server suite %04x auth %v: %s ref=%+v seen=%v checks=%v", suite, auth, o.Describe(), rv.Res, rv.Peer.Seen, rv.Peer.Checks)
			}
			cc := &gmtls.Config{RootCAs: p.StdRootsG, ServerName: ServerName, Time: FixedTime, Rand: wire.NewRand(2), CipherSuites: []uint16{suite}, Certificates: []gmtls.Certificate{p.StdClient}, MinVersion: 0x0303, MaxVersion: 0x0303}
			var cv View
			var rs RefView
			sid := gmref.Identity{Certs: [][]byte{p.RSA.Certificate[0]}, RSAKey: p.RSAKey}
			o = Run(GMEnd(cc, true, LibApp(true), &cv, nil),
				RefEnd(false, sid, 9, func(q *gmref.Peer) {
					q.UseTLS()
					q.Suites = []uint16{suite}
					q.RequestCert = auth != gmtls.NoClientCert
				}, &gmref.Script{Data: PingPong(false)}, &rs), &cv, &dummy, nil)
			if !o.C.Complete || !rs.Res.Completed || string(o.C.Read) != "pong" || string(rs.Peer.Received) != "ping" {
				t.Errorf("lib client / TLS ref server suite %04x auth %v: %s ref=%+v seen=%v checks=%v", suite, auth, o.Describe(), rs.Res, rs.Peer.Seen, rs.Peer.Checks)
			} else {
				t.Logf("ok %04x %v: ref server saw %v checks %v; ref client saw %v checks %v", suite, auth, rs.Peer.Seen, rs.Peer.Checks, rv.Peer.Seen, rv.Peer.Checks)
			}
		}
	}
}

func TestRefLegacyTLSInterop(t *testing.T) {
	p := Get()
	for _, v := range []uint16{0x0301, 0x0302} {
		for _, auth := range []gmtls.ClientAuthType{gmtls.NoClientCert, gmtls.RequireAndVerifyClientCert} {
			sc := &gmtls.Config{Certificates: []gmtls.Certificate{p.RSA}, Time: FixedTime, Rand: wire.NewRand(1), CipherSuites: []uint16{gmref.SuiteAESCBC}, ClientAuth: auth, ClientCAs: p.StdRootsG, MinVersion: v, MaxVersion: v}
			var sv, dummy View
			var rv RefView
			id := gmref.Identity{Certs: [][]byte{p.StdClient.Certificate[0]}, TLSKey: p.StdClient.PrivateKey}
			o := Run(RefEnd(true, id, 7, func(q *gmref.Peer) { q.UseTLSVersion(v) }, &gmref.Script{SendClientCert: true, Data: PingPong(true)}, &rv),
				GMEnd(sc, false, LibApp(false), &sv, nil), &dummy, &sv, nil)
			if !o.S.Complete || !rv.Res.Completed || string(o.S.Read) != "ping" || string(rv.Peer.Received) != "pong" {
				t.Errorf("legacy ref client / lib server version %04x auth %v: %s ref=%+v seen=%v checks=%v", v, auth, o.Describe(), rv.Res, rv.Peer.Seen, rv.Peer.Checks)
			}
			cc := &gmtls.Config{RootCAs: p.StdRootsG, ServerName: ServerName, Time: FixedTime, Rand: wire.NewRand(2), CipherSuites: []uint16{gmref.SuiteAESCBC}, Certificates: []gmtls.Certificate{p.StdClient}, MinVersion: v, MaxVersion: v}
			var cv View
			var rs RefView
			sid := gmref.Identity{Certs: [][]byte{p.RSA.Certificate[0]}, RSAKey: p.RSAKey}
			o = Run(GMEnd(cc, true, LibApp(true), &cv, nil),
				RefEnd(false, sid, 9, func(q *gmref.Peer) { q.UseTLSVersion(v); q.RequestCert = auth != gmtls.NoClientCert }, &gmref.Script{Data: PingPong(false)}, &rs), &cv, &dummy, nil)
			if !o.C.Complete || !rs.Res.Completed || string(o.C.Read) != "pong" || string(rs.Peer.Received) != "ping" {
				t.Errorf("lib client / legacy ref server version %04x auth %v: %s ref=%+v seen=%v checks=%v", v, auth, o.Describe(), rs.Res, rs.Peer.Seen, rs.Peer.Checks)
			} else {
				t.Logf("ok %04x %v: checks %v / %v", v, auth, rs.Peer.Checks, rv.Peer.Checks)
			}
		}
	}
}

func TestRefECDHEInterop(t *testing.T) {
	p := Get()
	for _, suite := range []uint16{gmref.SuiteECDHERSAGCM, gmref.SuiteECDHEECDSAGCM} {
		cert, key := p.RSA, interface{}(p.RSAKey)
		if suite == gmref.SuiteECDHEECDSAGCM {
			cert, key = p.ECDSA, interface{}(p.ECDSAKey)
		}
		for _, auth := range []gmtls.ClientAuthType{gmtls.NoClientCert, gmtls.RequireAndVerifyClientCert} {
			sc := &gmtls.Config{Certificates: []gmtls.Certificate{cert}, Time: FixedTime, Rand: wire.NewRand(1), CipherSuites: []uint16{suite}, ClientAuth: auth, ClientCAs: p.StdRootsG, MinVersion: 0x0303, MaxVersion: 0x0303}
			var sv, dummy View
			var rv RefView
			id := gmref.Identity{Certs: [][]byte{p.StdClient.Certificate[0]}, TLSKey: p.StdClient.PrivateKey}
			o := Run(RefEnd(true, id, 7, func(q *gmref.Peer) { q.UseECDHE(); q.Suites = []uint16{suite} }, &gmref.Script{SendClientCert: true, Data: PingPong(true)}, &rv),
				GMEnd(sc, false, LibApp(false), &sv, nil), &dummy, &sv, nil)
			if !o.S.Complete || !rv.Res.Completed || string(o.S.Read) != "ping" || string(rv.Peer.Received) != "pong" {
				t.Errorf("ECDHE ref client / lib server suite %04x auth %v: %s ref=%+v seen=%v checks=%v", suite, auth, o.Describe(), rv.Res, rv.Peer.Seen, rv.Peer.Checks)
			}
			cc := &gmtls.Config{RootCAs: p.StdRootsG, ServerName: ServerName, Time: FixedTime, Rand: wire.NewRand(2), CipherSuites: []uint16{suite}, Certificates: []gmtls.Certificate{p.StdClient}, MinVersion: 0x0303, MaxVersion: 0x0303}
			var cv View
			var rs RefView
			sid := gmref.Identity{Certs: [][]byte{cert.Certificate[0]}, TLSKey: key}
			o = Run(GMEnd(cc, true, LibApp(true), &cv, nil),
				RefEnd(false, sid, 9, func(q *gmref.Peer) {
					q.UseECDHE()
					q.Suites = []uint16{suite}
					q.RequestCert = auth != gmtls.NoClientCert
				}, &gmref.Script{Data: PingPong(false)}, &rs), &cv, &dummy, nil)
			if !o.C.Complete || !rs.Res.Completed || string(o.C.Read) != "pong" || string(rs.Peer.Received) != "ping" {
				t.Errorf("lib client / ECDHE ref server suite %04x auth %v: %s ref=%+v seen=%v checks=%v", suite, auth, o.Describe(), rs.Res, rs.Peer.Seen, rs.Peer.Checks)
			} else {
				t.Logf("ok %04x %v: ref server checks %v; ref client checks %v", suite, auth, rs.Peer.Checks, rv.Peer.Checks)
			}
		}
	}
}

func TestRefECDHECBCInterop(t *testing.T) {
	p := Get()
	for _, ver := range []uint16{0x0301, 0x0302, 0x0303} {
		for _, suite := range []uint16{gmref.SuiteECDHEECDSACBC, gmref.SuiteECDHERSACBC256} {
			cert, key := p.RSA, interface{}(p.RSAKey)
			if suite == gmref.SuiteECDHEECDSACBC {
				cert, key = p.ECDSA, interface{}(p.ECDSAKey)
			}
			for _, auth := range []gmtls.ClientAuthType{gmtls.NoClientCert, gmtls.RequireAndVerifyClientCert} {
				sc := &gmtls.Config{Certificates: []gmtls.Certificate{cert}, Time: FixedTime, Rand: wire.NewRand(1), CipherSuites: []uint16{suite}, ClientAuth: auth, ClientCAs: p.StdRootsG, MinVersion: ver, MaxVersion: ver}
				var sv, dummy View
				var rv RefView
				id := gmref.Identity{Certs: [][]byte{p.StdClient.Certificate[0]}, TLSKey: p.StdClient.PrivateKey}
				o := Run(RefEnd(true, id, 7, func(q *gmref.Peer) { q.UseECDHECBC(ver); q.Suites = []uint16{suite} }, &gmref.Script{SendClientCert: true, Data: PingPong(true)}, &rv),
					GMEnd(sc, false, LibApp(false), &sv, nil), &dummy, &sv, nil)
				if !o.S.Complete || !rv.Res.Completed || string(o.S.Read) != "ping" || string(rv.Peer.Received) != "pong" || !rv.Peer.Checks["ske-signature"] {
					t.Errorf("ECDHE-CBC %04x ref client / lib server suite %04x auth %v: %s ref=%+v seen=%v checks=%v", ver, suite, auth, o.Describe(), rv.Res, rv.Peer.Seen, rv.Peer.Checks)
				}
				cc := &gmtls.Config{RootCAs: p.StdRootsG, ServerName: ServerName, Time: FixedTime, Rand: wire.NewRand(2), CipherSuites: []uint16{suite}, Certificates: []gmtls.Certificate{p.StdClient}, MinVersion: ver, MaxVersion: ver}
				var cv View
				var rs RefView
				sid := gmref.Identity{Certs: [][]byte{cert.Certificate[0]}, TLSKey: key}
				o = Run(GMEnd(cc, true, LibApp(true), &cv, nil),
					RefEnd(false, sid, 9, func(q *gmref.Peer) {
						q.UseECDHECBC(ver)
						q.Suites = []uint16{suite}
						q.RequestCert = auth != gmtls.NoClientCert
					}, &gmref.Script{Data: PingPong(false)}, &rs), &cv, &dummy, nil)
				if !o.C.Complete || !rs.Res.Completed || string(o.C.Read) != "pong" || string(rs.Peer.Received) != "ping" {
					t.Errorf("lib client / ECDHE-CBC %04x ref server suite %04x auth %v: %s ref=%+v seen=%v checks=%v", ver, suite, auth, o.Describe(), rs.Res, rs.Peer.Seen, rs.Peer.Checks)
				}
			}
		}
	}
}

func TestRefRenegotiation(t *testing.T) {
	p := Get()
	type prof struct {
		name  string
		setup func(q *gmref.Peer)
		id    gmref.Identity
		cfg   func() *gmtls.Config
	}
	profs := []prof{
		{"GM", func(q *gmref.Peer) {}, ServerIdentity(), func() *gmtls.Config {
			return &gmtls.Config{GMSupport: &gmtls.GMSupport{}, RootCAs: p.Roots, ServerName: ServerName, Time: FixedTime, Rand: wire.NewRand(2)}
		}},
		{"TLS12", func(q *gmref.Peer) { q.UseTLS() }, gmref.Identity{Certs: [][]byte{p.RSA.Certificate[0]}, RSAKey: p.RSAKey}, func() *gmtls.Config {
			return &gmtls.Config{RootCAs: p.StdRootsG, ServerName: ServerName, Time: FixedTime, Rand: wire.NewRand(2), MinVersion: 0x0303, MaxVersion: 0x0303, CipherSuites: []uint16{gmref.SuiteAESCBC, gmref.SuiteAESGCM}}
		}},
		{"TLS10", func(q *gmref.Peer) { q.UseTLSVersion(0x0301) }, gmref.Identity{Certs: [][]byte{p.RSA.Certificate[0]}, RSAKey: p.RSAKey}, func() *gmtls.Config {
			return &gmtls.Config{RootCAs: p.StdRootsG, ServerName: ServerName, Time: FixedTime, Rand: wire.NewRand(2), MinVersion: 0x0301, MaxVersion: 0x0301, CipherSuites: []uint16{gmref.SuiteAESCBC}}
		}},
	}
	for _, pr := range profs {
		for _, echo := range []bool{true, false} {
			cfg := pr.cfg()
			cfg.Renegotiation = gmtls.RenegotiateFreelyAsClient
			var peer *gmref.Peer
			script := &gmref.Script{Data: func(q *gmref.Peer) error {
				if err := q.ReadApp(4); err != nil {
					return err
				}
				if err := q.WriteRecord(gmref.RecApp, []byte("po")); err != nil {
					return err
				}
				if r := q.RenegotiateServer(&gmref.Script{}, true); r.Err != nil || !r.Completed {
					return fmt.Errorf("renegotiation: %+v", r)
				}
				if err := q.WriteRecord(gmref.RecApp, []byte("ng")); err != nil {
					return err
				}
				return q.CloseNotify()
			}}
			o := RunLibVsRef(cfg, true, LibApp(true), pr.id, 5, func(q *gmref.Peer) { pr.setup(q); q.EchoRenegInfo = echo; peer = q }, script, nil)
			if !o.Lib.Complete || string(o.Lib.Read) != "pong" || o.Ref.Res.Err != nil {
				t.Errorf("%s echo=%v: %s", pr.name, echo, o.Describe())
				continue
			}
			ri := peer.ClientExts[0xff01]
			t.Logf("%s echo=%v ok; renegotiation ClientHello renegotiation_info=%x handshakes=%d", pr.name, echo, ri, peer.Handshakes)
		}
	}
}
