package tlsk

import (
	"testing"

	"github.com/tjfoc/gmsm/gmtls"

	"verif/mc/ref/gmref"
	"verif/mc/wire"
)

func TestRefInterop(t *testing.T) {
	p := Get()
	for _, suite := range []uint16{0xe013, 0xe053} {
		for _, auth := range []gmtls.ClientAuthType{gmtls.NoClientCert, gmtls.RequestClientCert, gmtls.RequireAndVerifyClientCert} {
			// reference client against library server
			sc := &gmtls.Config{GMSupport: &gmtls.GMSupport{}, Certificates: []gmtls.Certificate{p.Sign, p.Enc}, Time: FixedTime, Rand: wire.NewRand(1), CipherSuites: []uint16{suite}, ClientAuth: auth, ClientCAs: p.Roots}
			var sv, dummy View
			var rv RefView
			data := func(q *gmref.Peer) error {
				if err := q.WriteRecord(gmref.RecApp, []byte("ping")); err != nil {
					return err
				}
				if err := q.ReadApp(4); err != nil {
					return err
				}
				return q.CloseNotify()
			}
			o := Run(RefEnd(true, ClientIdentity(), 7, func(q *gmref.Peer) { q.Suites = []uint16{suite} }, &gmref.Script{SendClientCert: true, Data: data}, &rv),
				GMEnd(sc, false, App{Writes: [][]byte{[]byte("pong")}, Expect: 4}, &sv, nil), &dummy, &sv, nil)
			if !o.S.Complete || !rv.Res.Completed || rv.Res.Err != nil || string(o.S.Read) != "ping" || string(rv.Peer.Received) != "pong" {
				t.Errorf("ref client / lib server suite %04x auth %v: %s ref=%+v seen=%v checks=%v", suite, auth, o.Describe(), rv.Res, rv.Peer.Seen, rv.Peer.Checks)
			}
			// library client against reference server
			cc := &gmtls.Config{GMSupport: &gmtls.GMSupport{}, RootCAs: p.Roots, ServerName: ServerName, Time: FixedTime, Rand: wire.NewRand(2), CipherSuites: []uint16{suite}, Certificates: []gmtls.Certificate{p.Client}}
			var cv View
			var rs RefView
			sdata := func(q *gmref.Peer) error {
				if err := q.ReadApp(4); err != nil {
					return err
				}
				if err := q.WriteRecord(gmref.RecApp, []byte("pong")); err != nil {
					return err
				}
				return q.CloseNotify()
			}
			o = Run(GMEnd(cc, true, App{Writes: [][]byte{[]byte("ping")}, Expect: 4}, &cv, nil),
				RefEnd(false, ServerIdentity(), 9, func(q *gmref.Peer) { q.Suites = []uint16{suite}; q.RequestCert = auth != gmtls.NoClientCert }, &gmref.Script{Data: sdata}, &rs), &cv, &dummy, nil)
			if !o.C.Complete || !rs.Res.Completed || rs.Res.Err != nil || string(o.C.Read) != "pong" || string(rs.Peer.Received) != "ping" {
				t.Errorf("lib client / ref server suite %04x auth %v: %s ref=%+v seen=%v checks=%v", suite, auth, o.Describe(), rs.Res, rs.Peer.Seen, rs.Peer.Checks)
			} else {
				t.Logf("ok %04x %v: server saw %v checks %v; client-side ref saw %v checks %v", suite, auth, rs.Peer.Seen, rs.Peer.Checks, rv.Peer.Seen, rv.Peer.Checks)
			}
		}
	}
}
