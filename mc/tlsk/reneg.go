package tlsk

import (
	"fmt"

	"verif/mc/ref/gmref"
)

// RenegPlan describes a scripted server that, in the data phase, asks a library client for further
// handshakes on the protected connection.
type RenegPlan struct {
	Rounds int  // number of renegotiations the server asks for
	Echo   bool // the server takes part in RFC 5746 (renegotiation_info)
	// Before runs ahead of round r (0-based), after the previous handshake: change identity, suites,
	// RequestCert, RenegInfo ...
	Before func(r int, q *gmref.Peer)
	// Mutate rewrites the server flights of round r: flight 0 = hello flight, 1 = ChangeCipherSpec+Finished.
	Mutate func(r, flight int, items []gmref.Item) []gmref.Item
	// Lenient: after a round that failed on the server's side, still send the rest of the reply (to see
	// whether the client would deliver it)
	Lenient bool
	// NoRequest: the server does not send HelloRequest in that round (it just waits for a ClientHello)
	NoRequest func(r int) bool
	// SendClientCert unused (the reference is the server); Results of every round, filled in while running
	Results []gmref.Result
	// ClientInfo[r] is the renegotiation_info the client sent in round r; PrevClientVerify[r] what it had to be
	ClientInfo, PrevClientVerify [][]byte
}

// Reply is what the server writes in total: two bytes before every round and two at the end.
func (pl *RenegPlan) Reply() []byte {
	var b []byte
	for i := 0; i <= pl.Rounds; i++ {
		b = append(b, 'a'+byte(i), 'A'+byte(i))
	}
	return b
}

// App is the library client's side: write "ping", read the whole reply.
func (pl *RenegPlan) App() App { return App{Writes: [][]byte{[]byte("ping")}, Expect: len(pl.Reply())} }

// Data is the scripted server's data phase.
func (pl *RenegPlan) Data() func(q *gmref.Peer) error {
	return func(q *gmref.Peer) error {
		if err := q.ReadApp(4); err != nil {
			return err
		}
		reply := pl.Reply()
		for r := 0; r < pl.Rounds; r++ {
			if err := q.WriteRecord(gmref.RecApp, reply[2*r:2*r+2]); err != nil {
				return err
			}
			prev := append([]byte{}, q.ClientVerify...)
			if pl.Before != nil {
				pl.Before(r, q)
			}
			rr := r
			s := &gmref.Script{}
			if pl.Mutate != nil {
				s.Mutate = func(fl int, items []gmref.Item) []gmref.Item { return pl.Mutate(rr, fl-2, items) }
			}
			res := q.RenegotiateServer(s, pl.NoRequest == nil || !pl.NoRequest(r))
			pl.Results = append(pl.Results, res)
			pl.PrevClientVerify = append(pl.PrevClientVerify, prev)
			pl.ClientInfo = append(pl.ClientInfo, q.ClientExts[0xff01])
			if pl.Lenient && (res.Err != nil || !res.Completed) {
				q.WriteRecord(gmref.RecApp, reply[2*r+2:])
				q.CloseNotify()
				return fmt.Errorf("renegotiation %d: %s: %v (rest of the reply sent anyway)", r, res.Stage, res.Err)
			}
			if res.Err != nil {
				return fmt.Errorf("renegotiation %d: %s: %w", r, res.Stage, res.Err)
			}
			if !res.Completed {
				return fmt.Errorf("renegotiation %d did not complete", r)
			}
		}
		if err := q.WriteRecord(gmref.RecApp, reply[2*pl.Rounds:]); err != nil {
			return err
		}
		return q.CloseNotify()
	}
}

// RenegFinding is one way an outcome contradicts the verdict.
type RenegFinding struct{ Key, Msg string }

// JudgeReneg compares a renegotiation session with its verdict ("must-complete", "may-complete",
// "must-abort"). deviant is the round whose server flights are not what a conformant, identical
// server would send (-1: none); foreignData: the script injected application data of its own.
//
// byPolicy: the round is to be refused because the client's Renegotiation setting does not allow
// it; the client then stays on the session it has (data the server sends afterwards is still
// genuine), so the only thing that must not happen is that handshake.
func JudgeReneg(o *RefOutcome, pl *RenegPlan, verdict string, deviant int, foreignData, byPolicy bool) []RenegFinding {
	var out []RenegFinding
	add := func(k, f string, a ...interface{}) { out = append(out, RenegFinding{k, fmt.Sprintf(f, a...)}) }
	if o.Lib.Panic != nil {
		add("panic", "the client panicked: %v\n%s", o.Lib.Panic, o.Lib.Stack)
		return out
	}
	if o.LibStuck || o.Horizon {
		add("hang", "the client keeps waiting although its input has ended")
		return out
	}
	reply := pl.Reply()
	if !foreignData && (len(o.Lib.Read) > len(reply) || string(reply[:len(o.Lib.Read)]) != string(o.Lib.Read)) {
		add("data", "the client delivered %q, the server wrote %q", o.Lib.Read, reply)
	}
	switch verdict {
	case "must-complete":
		ok := string(o.Lib.Read) == string(reply) && len(pl.Results) == pl.Rounds && o.Lib.AfterComplete
		for _, r := range pl.Results {
			ok = ok && r.Completed && r.Err == nil
		}
		if !ok {
			add("refused", "a conformant renegotiation does not complete: results=%+v", pl.Results)
		}
	case "must-abort":
		if byPolicy {
			if len(pl.Results) > deviant && pl.Results[deviant].Completed {
				add("beyond-policy", "renegotiation %d took place although the client's policy does not allow it", deviant)
			}
			break
		}
		if len(o.Lib.Read)+len(o.Lib.ReadAfterErr) > 2*(deviant+1) {
			add("accepted", "the client delivered data sent after round %d (%q), i.e. it accepted that handshake", deviant, o.Lib.Read)
		}
		if o.Lib.ReadErr == nil {
			add("no-error", "the client's Read reported no error")
		}
	}
	return out
}
