// Package tlsk builds the PKI, configurations and session runner shared by the TLS checks.
package tlsk

import (
	"crypto"
	"crypto/ecdsa"
	"crypto/elliptic"
	"crypto/rand"
	"crypto/rsa"
	stdx509 "crypto/x509"
	"crypto/x509/pkix"
	"fmt"
	"math/big"
	"net"
	"sync"
	"time"

	"github.com/tjfoc/gmsm/gmtls"
	"github.com/tjfoc/gmsm/sm2"
	gx509 "github.com/tjfoc/gmsm/x509"

	"verif/mc/props/sm2k"
)

// Now is the fixed verification time of all endpoints.
var Now = time.Date(2024, 6, 1, 12, 0, 0, 0, time.UTC)

func FixedTime() time.Time { return Now }

const ServerName = "server.example.test"

// AltName is a second name all genuine server certificates are valid for.
const AltName = "alt.example.test"

// PKI is everything the checks need; built once per process.
type PKI struct {
	CA, CA2           *gx509.Certificate
	CAKey, CA2Key     *sm2.PrivateKey
	Roots, Roots2     *gx509.CertPool
	Sign, Enc         gmtls.Certificate // genuine server certificates
	SignKey, EncKey   *sm2.PrivateKey
	Client            gmtls.Certificate // client certificate under CA (clientAuth)
	ClientKey         *sm2.PrivateKey
	ClientUntrusted   gmtls.Certificate // under CA2
	ClientExpired     gmtls.Certificate
	ClientServerEKU   gmtls.Certificate // serverAuth only
	OtherKey          *sm2.PrivateKey
	Attacker          gmtls.Certificate // self-signed certificate of OtherKey (subject "attacker")
	ClientEnc         gmtls.Certificate // CA-issued certificate of the client with encipherment usages only
	SignUntrusted     gmtls.Certificate // sign cert under CA2
	EncUntrusted      gmtls.Certificate
	SignExpired       gmtls.Certificate
	SignNotYet        gmtls.Certificate
	SignWrongName     gmtls.Certificate
	ECDSAIP           gmtls.Certificate // ECDSA leaf certified for ServerName and the addresses 127.0.0.1 and ::1
	EncWrongName      gmtls.Certificate
	SignNoKU, EncNoKU gmtls.Certificate // key usage unsuitable
	Sign2, Enc2       gmtls.Certificate // a second genuine identity (other keys, same name)
	// intermediate CAs and client certificates issued by them (chains of two)
	SubCA           *gx509.Certificate // SM2 intermediate under CA
	ClientSub       gmtls.Certificate  // SM2 client certificate under SubCA; Certificate = [leaf, SubCA]
	StdSubCA        *gx509.Certificate // ECDSA intermediate under StdCA (parsed with the library's x509)
	StdClientSub    gmtls.Certificate  // ECDSA client certificate under StdSubCA; Certificate = [leaf, StdSubCA]
	StdClientRSA    gmtls.Certificate  // RSA client certificate under StdCA
	SignSub, EncSub gmtls.Certificate  // SM2 server pair issued by SubCA; Certificate = [leaf, SubCA]
	ECDSASub        gmtls.Certificate  // ECDSA server certificate issued by StdSubCA; Certificate = [leaf, StdSubCA]
	SubCAKey        *sm2.PrivateKey
	// standard TLS identities
	StdCA              *stdx509.Certificate
	StdCAKey           *ecdsa.PrivateKey
	StdRootsG          *gx509.CertPool   // for gmtls clients
	StdRoots           *stdx509.CertPool // for crypto/tls clients
	RSA, ECDSA         gmtls.Certificate
	RSAKey             *rsa.PrivateKey
	ECDSAKey           *ecdsa.PrivateKey
	StdClient          gmtls.Certificate // ECDSA client cert under StdCA
	StdClientUntrusted gmtls.Certificate // ECDSA client cert under another standard CA
	RSAGM              gmtls.Certificate // RSA certificate (for the GMSSL client's non-EC check)
}

var (
	pkiOnce sync.Once
	pki     *PKI
)

func sm2Cert(subject string, serial int64, pub *sm2.PublicKey, parent *gx509.Certificate, parentKey *sm2.PrivateKey, mod func(t *gx509.Certificate)) []byte {
	t := &gx509.Certificate{SerialNumber: big.NewInt(serial), Subject: pkix.Name{CommonName: subject, Organization: []string{"verif"}},
		NotBefore: time.Date(2020, 1, 1, 0, 0, 0, 0, time.UTC), NotAfter: time.Date(2030, 1, 1, 0, 0, 0, 0, time.UTC), SignatureAlgorithm: gx509.SM2WithSM3}
	mod(t)
	p := parent
	if p == nil {
		p = t
	}
	der, err := gx509.CreateCertificate(t, p, pub, parentKey)
	if err != nil {
		panic(err)
	}
	return der
}

func mustParse(der []byte) *gx509.Certificate {
	c, err := gx509.ParseCertificate(der)
	if err != nil {
		panic(err)
	}
	return c
}

// Get returns the process-wide PKI.
func Get() *PKI {
	pkiOnce.Do(func() {
		al := sm2k.Alphabet()
		p := &PKI{}
		p.CAKey, p.CA2Key = al[5].Lib(), al[8].Lib()
		p.SignKey, p.EncKey, p.ClientKey, p.OtherKey = al[6].Lib(), al[7].Lib(), al[9].Lib(), al[10].Lib()
		sign2Key, enc2Key := al[11].Lib(), al[4].Lib()
		caT := func(t *gx509.Certificate) {
			t.IsCA, t.BasicConstraintsValid = true, true
			t.KeyUsage = gx509.KeyUsageCertSign | gx509.KeyUsageCRLSign
			t.SubjectKeyId = []byte{1}
		}
		p.CA = mustParse(sm2Cert("verif CA", 1, &p.CAKey.PublicKey, nil, p.CAKey, caT))
		p.CA2 = mustParse(sm2Cert("verif CA2", 2, &p.CA2Key.PublicKey, nil, p.CA2Key, func(t *gx509.Certificate) { caT(t); t.SubjectKeyId = []byte{2} }))
		p.Roots, p.Roots2 = gx509.NewCertPool(), gx509.NewCertPool()
		p.Roots.AddCert(p.CA)
		p.Roots2.AddCert(p.CA2)
		signT := func(t *gx509.Certificate) {
			t.KeyUsage = gx509.KeyUsageDigitalSignature
			t.DNSNames = []string{ServerName, AltName}
			t.IPAddresses = []net.IP{net.ParseIP("127.0.0.1")}
		}
		encT := func(t *gx509.Certificate) {
			t.KeyUsage = gx509.KeyUsageKeyEncipherment | gx509.KeyUsageDataEncipherment | gx509.KeyUsageKeyAgreement
			t.DNSNames = []string{ServerName, AltName}
			t.IPAddresses = []net.IP{net.ParseIP("127.0.0.1")}
		}
		mk := func(der []byte, key crypto.PrivateKey) gmtls.Certificate {
			return gmtls.Certificate{Certificate: [][]byte{der}, PrivateKey: key}
		}
		p.Sign = mk(sm2Cert("server sign", 10, &p.SignKey.PublicKey, p.CA, p.CAKey, signT), p.SignKey)
		p.Enc = mk(sm2Cert("server enc", 11, &p.EncKey.PublicKey, p.CA, p.CAKey, encT), p.EncKey)
		p.Sign2 = mk(sm2Cert("server sign", 12, &sign2Key.PublicKey, p.CA, p.CAKey, signT), sign2Key)
		p.Enc2 = mk(sm2Cert("server enc", 13, &enc2Key.PublicKey, p.CA, p.CAKey, encT), enc2Key)
		p.SignUntrusted = mk(sm2Cert("server sign", 14, &p.SignKey.PublicKey, p.CA2, p.CA2Key, signT), p.SignKey)
		p.EncUntrusted = mk(sm2Cert("server enc", 15, &p.EncKey.PublicKey, p.CA2, p.CA2Key, encT), p.EncKey)
		p.SignExpired = mk(sm2Cert("server sign", 16, &p.SignKey.PublicKey, p.CA, p.CAKey, func(t *gx509.Certificate) {
			signT(t)
			t.NotBefore, t.NotAfter = time.Date(2010, 1, 1, 0, 0, 0, 0, time.UTC), time.Date(2015, 1, 1, 0, 0, 0, 0, time.UTC)
		}), p.SignKey)
		p.SignNotYet = mk(sm2Cert("server sign", 17, &p.SignKey.PublicKey, p.CA, p.CAKey, func(t *gx509.Certificate) {
			signT(t)
			t.NotBefore, t.NotAfter = time.Date(2028, 1, 1, 0, 0, 0, 0, time.UTC), time.Date(2035, 1, 1, 0, 0, 0, 0, time.UTC)
		}), p.SignKey)
		p.SignWrongName = mk(sm2Cert("server sign", 18, &p.SignKey.PublicKey, p.CA, p.CAKey, func(t *gx509.Certificate) { signT(t); t.DNSNames = []string{"other.example.test"}; t.IPAddresses = nil }), p.SignKey)
		p.EncWrongName = mk(sm2Cert("server enc", 19, &p.EncKey.PublicKey, p.CA, p.CAKey, func(t *gx509.Certificate) { encT(t); t.DNSNames = []string{"other.example.test"}; t.IPAddresses = nil }), p.EncKey)
		p.SignNoKU = mk(sm2Cert("server sign", 20, &p.SignKey.PublicKey, p.CA, p.CAKey, func(t *gx509.Certificate) { signT(t); t.KeyUsage = gx509.KeyUsageKeyEncipherment }), p.SignKey)
		p.EncNoKU = mk(sm2Cert("server enc", 21, &p.EncKey.PublicKey, p.CA, p.CAKey, func(t *gx509.Certificate) { encT(t); t.KeyUsage = gx509.KeyUsageDigitalSignature }), p.EncKey)
		cliT := func(t *gx509.Certificate) {
			t.KeyUsage = gx509.KeyUsageDigitalSignature
			t.ExtKeyUsage = []gx509.ExtKeyUsage{gx509.ExtKeyUsageClientAuth}
		}
		p.Attacker = mk(sm2Cert("attacker", 40, &p.OtherKey.PublicKey, nil, p.OtherKey, func(t *gx509.Certificate) {
			cliT(t)
			t.ExtKeyUsage = []gx509.ExtKeyUsage{gx509.ExtKeyUsageClientAuth, gx509.ExtKeyUsageServerAuth}
			t.DNSNames = []string{ServerName}
		}), p.OtherKey)
		p.Client = mk(sm2Cert("client", 30, &p.ClientKey.PublicKey, p.CA, p.CAKey, cliT), p.ClientKey)
		p.ClientEnc = mk(sm2Cert("client", 34, &p.ClientKey.PublicKey, p.CA, p.CAKey, func(t *gx509.Certificate) {
			cliT(t)
			t.KeyUsage = gx509.KeyUsageKeyEncipherment | gx509.KeyUsageDataEncipherment
		}), p.ClientKey)
		{
			subKey, leafKey := al[12].Lib(), al[13].Lib()
			subDER := sm2Cert("verif Sub CA", 3, &subKey.PublicKey, p.CA, p.CAKey, func(t *gx509.Certificate) { caT(t); t.SubjectKeyId = []byte{3} })
			p.SubCA = mustParse(subDER)
			p.ClientSub = mk(sm2Cert("client under sub CA", 35, &leafKey.PublicKey, p.SubCA, subKey, cliT), leafKey)
			p.ClientSub.Certificate = append(p.ClientSub.Certificate, subDER)
			p.SubCAKey = subKey
			p.SignSub = mk(sm2Cert("server sign under sub CA", 36, &p.SignKey.PublicKey, p.SubCA, subKey, signT), p.SignKey)
			p.SignSub.Certificate = append(p.SignSub.Certificate, subDER)
			p.EncSub = mk(sm2Cert("server enc under sub CA", 37, &p.EncKey.PublicKey, p.SubCA, subKey, encT), p.EncKey)
			p.EncSub.Certificate = append(p.EncSub.Certificate, subDER)
		}
		p.ClientUntrusted = mk(sm2Cert("client", 31, &p.ClientKey.PublicKey, p.CA2, p.CA2Key, cliT), p.ClientKey)
		p.ClientExpired = mk(sm2Cert("client", 32, &p.ClientKey.PublicKey, p.CA, p.CAKey, func(t *gx509.Certificate) {
			cliT(t)
			t.NotBefore, t.NotAfter = time.Date(2010, 1, 1, 0, 0, 0, 0, time.UTC), time.Date(2015, 1, 1, 0, 0, 0, 0, time.UTC)
		}), p.ClientKey)
		p.ClientServerEKU = mk(sm2Cert("client", 33, &p.ClientKey.PublicKey, p.CA, p.CAKey, func(t *gx509.Certificate) {
			cliT(t)
			t.ExtKeyUsage = []gx509.ExtKeyUsage{gx509.ExtKeyUsageServerAuth}
		}), p.ClientKey)

		// standard identities (crypto/x509)
		p.StdCAKey, _ = ecdsa.GenerateKey(elliptic.P256(), rand.Reader)
		caTmpl := &stdx509.Certificate{SerialNumber: big.NewInt(100), Subject: pkix.Name{CommonName: "std CA"}, NotBefore: time.Date(2020, 1, 1, 0, 0, 0, 0, time.UTC), NotAfter: time.Date(2030, 1, 1, 0, 0, 0, 0, time.UTC),
			IsCA: true, BasicConstraintsValid: true, KeyUsage: stdx509.KeyUsageCertSign}
		caDER, _ := stdx509.CreateCertificate(rand.Reader, caTmpl, caTmpl, &p.StdCAKey.PublicKey, p.StdCAKey)
		p.StdCA, _ = stdx509.ParseCertificate(caDER)
		p.StdRoots = stdx509.NewCertPool()
		p.StdRoots.AddCert(p.StdCA)
		p.StdRootsG = gx509.NewCertPool()
		p.StdRootsG.AddCert(mustParse(caDER))
		leaf := func(serial int64, pub crypto.PublicKey, eku []stdx509.ExtKeyUsage, ku stdx509.KeyUsage) []byte {
			t := &stdx509.Certificate{SerialNumber: big.NewInt(serial), Subject: pkix.Name{CommonName: "std leaf"}, NotBefore: time.Date(2020, 1, 1, 0, 0, 0, 0, time.UTC), NotAfter: time.Date(2030, 1, 1, 0, 0, 0, 0, time.UTC),
				DNSNames: []string{ServerName, AltName}, KeyUsage: ku, ExtKeyUsage: eku}
			der, err := stdx509.CreateCertificate(rand.Reader, t, p.StdCA, pub, p.StdCAKey)
			if err != nil {
				panic(err)
			}
			return der
		}
		p.RSAKey, _ = rsa.GenerateKey(rand.Reader, 2048)
		p.ECDSAKey, _ = ecdsa.GenerateKey(elliptic.P256(), rand.Reader)
		p.RSA = mk(leaf(101, &p.RSAKey.PublicKey, []stdx509.ExtKeyUsage{stdx509.ExtKeyUsageServerAuth}, stdx509.KeyUsageDigitalSignature|stdx509.KeyUsageKeyEncipherment), p.RSAKey)
		p.ECDSA = mk(leaf(102, &p.ECDSAKey.PublicKey, []stdx509.ExtKeyUsage{stdx509.ExtKeyUsageServerAuth}, stdx509.KeyUsageDigitalSignature), p.ECDSAKey)
		ck, _ := ecdsa.GenerateKey(elliptic.P256(), rand.Reader)
		p.StdClient = mk(leaf(103, &ck.PublicKey, []stdx509.ExtKeyUsage{stdx509.ExtKeyUsageClientAuth}, stdx509.KeyUsageDigitalSignature), ck)
		p.RSAGM = p.RSA
		{
			subKey, _ := ecdsa.GenerateKey(elliptic.P256(), rand.Reader)
			st := &stdx509.Certificate{SerialNumber: big.NewInt(110), Subject: pkix.Name{CommonName: "std Sub CA"}, NotBefore: time.Date(2020, 1, 1, 0, 0, 0, 0, time.UTC), NotAfter: time.Date(2030, 1, 1, 0, 0, 0, 0, time.UTC),
				IsCA: true, BasicConstraintsValid: true, KeyUsage: stdx509.KeyUsageCertSign}
			subDER, err := stdx509.CreateCertificate(rand.Reader, st, p.StdCA, &subKey.PublicKey, p.StdCAKey)
			if err != nil {
				panic(err)
			}
			sub, _ := stdx509.ParseCertificate(subDER)
			p.StdSubCA = mustParse(subDER)
			lk, _ := ecdsa.GenerateKey(elliptic.P256(), rand.Reader)
			lt := &stdx509.Certificate{SerialNumber: big.NewInt(111), Subject: pkix.Name{CommonName: "std client under sub CA"}, NotBefore: time.Date(2020, 1, 1, 0, 0, 0, 0, time.UTC), NotAfter: time.Date(2030, 1, 1, 0, 0, 0, 0, time.UTC),
				KeyUsage: stdx509.KeyUsageDigitalSignature, ExtKeyUsage: []stdx509.ExtKeyUsage{stdx509.ExtKeyUsageClientAuth}}
			lder, err := stdx509.CreateCertificate(rand.Reader, lt, sub, &lk.PublicKey, subKey)
			if err != nil {
				panic(err)
			}
			p.StdClientSub = mk(lder, lk)
			p.StdClientSub.Certificate = append(p.StdClientSub.Certificate, subDER)
			st2 := &stdx509.Certificate{SerialNumber: big.NewInt(113), Subject: pkix.Name{CommonName: "std server under sub CA"}, NotBefore: time.Date(2020, 1, 1, 0, 0, 0, 0, time.UTC), NotAfter: time.Date(2030, 1, 1, 0, 0, 0, 0, time.UTC),
				DNSNames: []string{ServerName, AltName}, KeyUsage: stdx509.KeyUsageDigitalSignature, ExtKeyUsage: []stdx509.ExtKeyUsage{stdx509.ExtKeyUsageServerAuth}}
			sder, err := stdx509.CreateCertificate(rand.Reader, st2, sub, &p.ECDSAKey.PublicKey, subKey)
			if err != nil {
				panic(err)
			}
			p.ECDSASub = mk(sder, p.ECDSAKey)
			p.ECDSASub.Certificate = append(p.ECDSASub.Certificate, subDER)
			rk, _ := rsa.GenerateKey(rand.Reader, 2048)
			p.StdClientRSA = mk(leaf(112, &rk.PublicKey, []stdx509.ExtKeyUsage{stdx509.ExtKeyUsageClientAuth}, stdx509.KeyUsageDigitalSignature), rk)
		}
		{
			t := &stdx509.Certificate{SerialNumber: big.NewInt(104), Subject: pkix.Name{CommonName: "std leaf ip"}, NotBefore: time.Date(2020, 1, 1, 0, 0, 0, 0, time.UTC), NotAfter: time.Date(2030, 1, 1, 0, 0, 0, 0, time.UTC),
				DNSNames: []string{ServerName}, IPAddresses: []net.IP{net.ParseIP("127.0.0.1"), net.ParseIP("::1")}, KeyUsage: stdx509.KeyUsageDigitalSignature, ExtKeyUsage: []stdx509.ExtKeyUsage{stdx509.ExtKeyUsageServerAuth}}
			der, err := stdx509.CreateCertificate(rand.Reader, t, p.StdCA, &p.ECDSAKey.PublicKey, p.StdCAKey)
			if err != nil {
				panic(err)
			}
			p.ECDSAIP = mk(der, p.ECDSAKey)
		}
		ca2Key, _ := ecdsa.GenerateKey(elliptic.P256(), rand.Reader)
		ca2Tmpl := &stdx509.Certificate{SerialNumber: big.NewInt(200), Subject: pkix.Name{CommonName: "std CA 2"}, NotBefore: time.Date(2020, 1, 1, 0, 0, 0, 0, time.UTC), NotAfter: time.Date(2030, 1, 1, 0, 0, 0, 0, time.UTC),
			IsCA: true, BasicConstraintsValid: true, KeyUsage: stdx509.KeyUsageCertSign}
		ca2DER, _ := stdx509.CreateCertificate(rand.Reader, ca2Tmpl, ca2Tmpl, &ca2Key.PublicKey, ca2Key)
		ca2, _ := stdx509.ParseCertificate(ca2DER)
		uk, _ := ecdsa.GenerateKey(elliptic.P256(), rand.Reader)
		ut := &stdx509.Certificate{SerialNumber: big.NewInt(201), Subject: pkix.Name{CommonName: "std client untrusted"}, NotBefore: time.Date(2020, 1, 1, 0, 0, 0, 0, time.UTC), NotAfter: time.Date(2030, 1, 1, 0, 0, 0, 0, time.UTC),
			KeyUsage: stdx509.KeyUsageDigitalSignature, ExtKeyUsage: []stdx509.ExtKeyUsage{stdx509.ExtKeyUsageClientAuth}}
		uder, _ := stdx509.CreateCertificate(rand.Reader, ut, ca2, &uk.PublicKey, ca2Key)
		p.StdClientUntrusted = mk(uder, uk)
		pki = p
	})
	return pki
}

var (
	extraMu    sync.Mutex
	extraCerts = map[string]gmtls.Certificate{}
)

// StdServerCert returns (creating it on first use) a server certificate under StdCA for the given
// DNS names, with an ECDSA P-256 or an RSA key.
func (p *PKI) StdServerCert(names []string, rsaKey bool) gmtls.Certificate {
	return p.stdServerCert(names, rsaKey, false)
}

// StdSelfSignedServerCert is the same certificate signed by its own key (no trusted issuer).
func (p *PKI) StdSelfSignedServerCert(names []string, rsaKey bool) gmtls.Certificate {
	return p.stdServerCert(names, rsaKey, true)
}

func (p *PKI) stdServerCert(names []string, rsaKey, selfSigned bool) gmtls.Certificate {
	extraMu.Lock()
	defer extraMu.Unlock()
	k := fmt.Sprintf("%v/%v/%v", names, rsaKey, selfSigned)
	if c, ok := extraCerts[k]; ok {
		return c
	}
	var pub crypto.PublicKey
	var priv crypto.PrivateKey
	ku := stdx509.KeyUsageDigitalSignature
	if rsaKey {
		key, _ := rsa.GenerateKey(rand.Reader, 2048)
		pub, priv, ku = &key.PublicKey, key, ku|stdx509.KeyUsageKeyEncipherment
	} else {
		key, _ := ecdsa.GenerateKey(elliptic.P256(), rand.Reader)
		pub, priv = &key.PublicKey, key
	}
	t := &stdx509.Certificate{SerialNumber: big.NewInt(int64(300 + len(extraCerts))), Subject: pkix.Name{CommonName: "std leaf " + names[0]}, NotBefore: time.Date(2020, 1, 1, 0, 0, 0, 0, time.UTC), NotAfter: time.Date(2030, 1, 1, 0, 0, 0, 0, time.UTC),
		DNSNames: names, KeyUsage: ku, ExtKeyUsage: []stdx509.ExtKeyUsage{stdx509.ExtKeyUsageServerAuth}}
	parent, parentKey := p.StdCA, crypto.PrivateKey(p.StdCAKey)
	if selfSigned {
		parent, parentKey = t, priv
	}
	der, err := stdx509.CreateCertificate(rand.Reader, t, parent, pub, parentKey)
	if err != nil {
		panic(err)
	}
	c := gmtls.Certificate{Certificate: [][]byte{der}, PrivateKey: priv}
	extraCerts[k] = c
	return c
}

// SM2LeafValid mints a server signing ("sign"), server encryption ("enc") or client ("client")
// certificate for the PKI's usual key of that role under the SM2 CA, valid from nb to na.
func (p *PKI) SM2LeafValid(kind string, nb, na time.Time) gmtls.Certificate {
	extraMu.Lock()
	defer extraMu.Unlock()
	key := map[string]*sm2.PrivateKey{"sign": p.SignKey, "enc": p.EncKey, "client": p.ClientKey}[kind]
	der := sm2Cert("server "+kind, int64(500+len(extraCerts)), &key.PublicKey, p.CA, p.CAKey, func(t *gx509.Certificate) {
		t.NotBefore, t.NotAfter = nb, na
		switch kind {
		case "sign":
			t.KeyUsage = gx509.KeyUsageDigitalSignature
			t.DNSNames = []string{ServerName, AltName}
		case "enc":
			t.KeyUsage = gx509.KeyUsageKeyEncipherment | gx509.KeyUsageDataEncipherment | gx509.KeyUsageKeyAgreement
			t.DNSNames = []string{ServerName, AltName}
		default:
			t.KeyUsage = gx509.KeyUsageDigitalSignature
			t.ExtKeyUsage = []gx509.ExtKeyUsage{gx509.ExtKeyUsageClientAuth}
		}
	})
	c := gmtls.Certificate{Certificate: [][]byte{der}, PrivateKey: key}
	extraCerts[fmt.Sprintf("sm2leaf/%s/%d", kind, len(extraCerts))] = c
	return c
}

// StdLeafValid mints an ECDSA server (or client) certificate under the standard CA, valid from nb to na.
func (p *PKI) StdLeafValid(client bool, nb, na time.Time) gmtls.Certificate {
	extraMu.Lock()
	defer extraMu.Unlock()
	key, _ := ecdsa.GenerateKey(elliptic.P256(), rand.Reader)
	t := &stdx509.Certificate{SerialNumber: big.NewInt(int64(700 + len(extraCerts))), Subject: pkix.Name{CommonName: "std leaf with its own validity"}, NotBefore: nb, NotAfter: na,
		DNSNames: []string{ServerName}, KeyUsage: stdx509.KeyUsageDigitalSignature, ExtKeyUsage: []stdx509.ExtKeyUsage{stdx509.ExtKeyUsageServerAuth}}
	if client {
		t.DNSNames, t.ExtKeyUsage = nil, []stdx509.ExtKeyUsage{stdx509.ExtKeyUsageClientAuth}
	}
	der, err := stdx509.CreateCertificate(rand.Reader, t, p.StdCA, &key.PublicKey, p.StdCAKey)
	if err != nil {
		panic(err)
	}
	c := gmtls.Certificate{Certificate: [][]byte{der}, PrivateKey: key}
	extraCerts[fmt.Sprintf("stdleaf/%v/%d", client, len(extraCerts))] = c
	return c
}
