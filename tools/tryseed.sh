#!/bin/bash
# tryseed.sh <name> <Cxx> [tier]: apply seeded/<name>/patch.diff to /repo, run the check, undo.
set -u
name="$1"; id="$2"; tier="${3:-quick}"
cd /verif
[ -n "$(git -C /repo status --porcelain --untracked-files=no)" ] && { echo "/repo not clean"; exit 2; }
d=/verif/seeded/$name; [ -d "$d" ] || d=/verif/mutants/$name
git -C /repo apply "$d/patch.diff" || exit 2
./run.sh "$id" "$tier" > /tmp/tryseed.$name.log 2>&1; rc=$?
git -C /repo checkout -- .
grep -c '^VIOLATION' /tmp/tryseed.$name.log | sed "s/^/$name $id $tier: exit=$rc VIOLATION lines=/"
grep -A2 '^VIOLATION' /tmp/tryseed.$name.log | head -6
