#!/usr/bin/env python3
"""seedmeta.py <name> <Cxx> <needs text> [detected: text]"""
import json, sys, os
name, pid, needs = sys.argv[1:4]
det = sys.argv[4] if len(sys.argv) > 4 else None
p = f"/verif/seeded/{name}/meta.json"
m = json.load(open(p)) if os.path.exists(p) else {}
m.update({"name": name, "breaks_property": pid, "needs_to_manifest": needs,
  "confirmed_by": "tools/confirm_seed.sh in a scratch worktree: demo_test.go passes on the unchanged tree, fails with patch.diff applied; `go test -vet=off -count=1` over all baseline packages passes with patch.diff applied",
  "origin": "written by an independent sub-agent given only the property text and a scratch worktree"})
if det: m["detected_by"] = det
json.dump(m, open(p, "w"), indent=1)
