#!/bin/bash
# procseeds_par.sh name:Cxx ...: confirm each delivered seed in its scratch worktree, then try all
# confirmed ones against the quick checks of their properties in scratch worktrees (allseeds_par.sh),
# never touching /repo's working tree.
cd /verif
ok=""
for spec in "$@"; do
  n=${spec%%:*}; p=${spec##*:}
  r=$(./tools/confirm_seed.sh $n $p 2>&1 | tail -1); echo "== $n confirm: $r"
  if [ "$r" = CONFIRMED ]; then
    [ -f seeded/$n/meta.json ] || python3 -c "import json;json.dump({'name':'$n','breaks_property':'$p'},open('/verif/seeded/$n/meta.json','w'),indent=1)"
    ok="$ok $n"
  fi
done
[ -n "$ok" ] && ./tools/allseeds_par.sh -j 4 $ok
