#!/usr/bin/env python3
"""Print the DESIGN §7.1 table from evidence files: quick tier from /verif/evidence (last run),
thorough tier from the directory given as argv[1] (copies of the evidence of the last thorough sweep)."""
import json, sys, os
th = sys.argv[1] if len(sys.argv) > 1 else None
def main(c):
    return max(c.get('executions') or 0, c.get('evaluations') or 0)
def fmt(n):
    if n is None or n == '-': return '-'
    n = int(n)
    if n >= 10_000_000: return '%.0f M' % (n/1e6)
    if n >= 1_000_000: return '%.1f M' % (n/1e6)
    if n >= 10_000: return '%.0f k' % (n/1e3)
    if n >= 1_000: return '%.1f k' % (n/1e3)
    return str(n)
print('| id | level | quick: units | executions / evaluations | distinct states | transitions | wall | thorough: units | executions / evaluations | wall |')
print('|---|---|---|---|---|---|---|---|---|---|')
for i in range(1, 21):
    pid = 'C%02d' % i
    e = json.load(open('/verif/evidence/%s.json' % pid)); c = e['coverage']
    row = [pid, e.get('level'), c.get('units'), fmt(main(c)), fmt(c.get('distinct_states', c.get('states', '-'))), fmt(c.get('transitions', '-')), '%.0f s' % float(e.get('wall_s') or 0)]
    if th and os.path.exists('%s/%s.json' % (th, pid)):
        t = json.load(open('%s/%s.json' % (th, pid))); tc = t['coverage']
        row += [tc.get('units'), fmt(main(tc)), '%.0f s' % float(t.get('wall_s') or 0)]
    else:
        row += ['-', '-', '-']
    print('| ' + ' | '.join(str(x) for x in row) + ' |')
