#!/usr/bin/env python3
"""Print the measured columns of DESIGN §7.1 from the evidence files of the last run."""
import json
for i in range(1, 21):
    e = json.load(open('/verif/evidence/C%02d.json' % i))
    c = e['coverage']
    n = c.get('executions') or c.get('evaluations') or 0
    print("C%02d %-18s tier=%-8s units=%-4s main_count=%-9s states=%-8s transitions=%-9s wall=%ss" % (i, e.get('level'), e.get('tier'), c.get('units'), n, c.get('distinct_states', c.get('states', '-')), c.get('transitions', '-'), e.get('wall_s')))
