#!/usr/bin/env python3
"""Print the prompt given to a seeding sub-agent: property text + scratch worktree, nothing else from /verif."""
import json, sys
pid, wt = sys.argv[1], sys.argv[2]
extra = sys.argv[3] if len(sys.argv) > 3 else ""
p = None
for l in open('/verif/properties.jsonl'):
    d = json.loads(l)
    if d['id'] == pid: p = d
out = f"""You are helping to evaluate a verification framework for the Go library tjfoc/gmsm (Chinese national crypto SM2/SM3/SM4, SM2-aware x509/pkcs12, and a GM/T 0024 TLS stack forked from Go's crypto/tls).

Your own scratch git worktree of the repository is at {wt} (a detached checkout). Work ONLY inside {wt} and your output directory /tmp/seed/{wt.split('/')[-1]}/ . Never read or write /repo or /verif. There is no network. In every shell call first run:
  export GOFLAGS=-mod=mod GOPROXY=off GOSUMDB=off GOTOOLCHAIN=local
The repository's test suite is run with:  cd {wt} && go test -vet=off -count=1 ./...   (all packages must pass; takes well under a minute)

Here is a semantic property that the library is supposed to satisfy:

PROPERTY {p['id']}: {p['title']}
STATEMENT: {p['statement']}
QUANTIFIED OVER: {p['quantifier']['text']}

YOUR TASK: produce ONE realistic change (a plausible bug a developer could introduce: a refactor gone subtly wrong, an optimisation, an off-by-one, a missing check, state hoisted or shared, a cursor advanced early, two sites that each look fine alone) to the library source in {wt} such that
 (a) the repository still compiles and its existing test suite (command above) still passes completely, unedited;
 (b) the property above is broken by the change - i.e. there is some input / call sequence / interleaving / fault / configuration, within what the property quantifies over, for which the library's observable behaviour now contradicts the STATEMENT, whereas the unchanged library does not contradict it for that same case;
 (c) the breakage needs something SPECIFIC to manifest - a particular input value or length class, a multi-step sequence of operations, a particular interleaving, a fault at a particular point, an unusual configuration, or two cooperating sites - NOT something that ordinary use of the API would expose at once (a change that breaks every call is useless).
Do not change test files. Do not add build tags. Keep the change small (ideally < 30 changed lines) and confined to non-test .go files of the library. Do not make changes whose only effect is a crash/compile problem unrelated to the property.
{extra}
Then write a DEMONSTRATION: a Go test file (put it where it compiles, e.g. as an extra _test.go file in the relevant package or an external test package) that FAILS with your change applied and PASSES on the unchanged library (switch with `git diff > /tmp/seed/NAME.p; git apply -R /tmp/seed/NAME.p` and `git apply /tmp/seed/NAME.p`; NEVER use `git stash`: it is shared between worktrees). Confirm both outcomes by actually running it, and confirm the full existing suite passes with your change applied (without the demonstration file present if it would interfere).

Deliver in /tmp/seed/{wt.split('/')[-1]}/ :
  patch.diff   - output of `git -C {wt} diff` for the library change ONLY (no test/demo files), applicable with `git apply` from the repository root
  demo_test.go - the demonstration test file, with a first-line comment saying in which package directory it must be placed (e.g. // place in: sm3/ )
  NOTES.md     - 10-20 lines: what the change is, which clause of the property it breaks, exactly what is needed for it to manifest, the commands you ran and their outcomes (demo fails with change / passes without; suite passes with change).
Leave the worktree in place with your change applied (I will clean it up). Your final answer should be a 5-line summary of the same.
"""
print(out)
