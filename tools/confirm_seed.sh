#!/bin/bash
# confirm_seed.sh <name> <Cxx>: confirm a seeded change in its scratch worktree /tmp/wt/<name>:
#  demo passes without the change, fails with it, and the baseline suite passes with it.
# On success stores it as /verif/seeded/<name>/ and removes the worktree.
set -u
name="$1"; id="$2"
wt=/tmp/wt/$name; sd=/tmp/seed/$name
export GOFLAGS=-mod=mod GOPROXY=off GOSUMDB=off GOTOOLCHAIN=local
exec 9>/tmp/seed/.lock; flock 9
cd "$wt" || exit 2
git checkout -q -- . ; git clean -fdq
place=$(head -1 "$sd/demo_test.go" | sed -n 's/.*place in: *\([^ ]*\).*/\1/p'); place=${place%/}
[ -z "$place" ] && { echo "no place line"; exit 2; }
cp "$sd/demo_test.go" "$wt/$place/zz_seed_demo_test.go"
go test -vet=off -count=1 ./$place/ >/tmp/seed/$name.clean.log 2>&1; clean=$?
git apply "$sd/patch.diff" || { echo "patch does not apply"; exit 2; }
go test -vet=off -count=1 ./$place/ >/tmp/seed/$name.mut.log 2>&1; mut=$?
rm -f "$wt/$place/zz_seed_demo_test.go"
go test -vet=off -count=1 $(go list ./... | grep -v gmcredentials) >/tmp/seed/$name.suite.log 2>&1; suite=$?
echo "demo-clean=$clean (want 0) demo-mutated=$mut (want !=0) suite-with-change=$suite (want 0)"
if [ $clean -eq 0 ] && [ $mut -ne 0 ] && [ $suite -eq 0 ]; then
  mkdir -p /verif/seeded/$name
  cp "$sd/patch.diff" "$sd/demo_test.go" /verif/seeded/$name/
  cp "$sd/NOTES.md" /verif/seeded/$name/NOTES.md 2>/dev/null
  echo CONFIRMED
  cd /; git -C /repo worktree remove --force "$wt"; rm -f /tmp/seed/$name.*.log
else
  tail -n 5 /tmp/seed/$name.clean.log /tmp/seed/$name.suite.log
  exit 1
fi
