#!/usr/bin/env python3
"""Generate /verif/MANIFEST.json from the table below (kept valid at all times)."""
import json, subprocess
ALL = ["C%02d" % i for i in range(1, 21)]
# id -> (level, technique, level text, level note, design ref)
CHECKS = {}
def add(i, level, technique, text, note, ref):
    CHECKS[i] = dict(level=level, technique=technique, text=text, note=note, ref=ref)

add("C04", "model_checking",
    "bounded exhaustive exploration of hash.Hash call histories (stateless DFS over all operation sequences to depth 5/6 on the real object, byte-slice reference model + independent SM3), exhaustive split/length enumeration",
    "Every operation sequence over {Write(10 chunk sizes), Sum(nil), Sum(prefix), Sum(prefix with capacity), Reset} up to the depth bound is executed on a real sm3.New() and compared step by step with a byte-slice model hashed by an independent GM/T 0004 implementation; every 2-split/3-split and one-shot length in the stated ranges; HMAC/PBKDF2 consumers. Within the bound this is a coverage statement, not a sample.",
    "refsm3 (independent transcription of GM/T 0004, anchored on the standard's vectors); message bytes are a fixed function of position", "DESIGN.md §3 C04")

add("C05", "model_checking",
    "bounded exhaustive exploration of Encrypt/Decrypt call histories on long-lived cipher objects (all sequences to depth 6/8 over 10 operations) against a stateless independent SM4, plus exhaustive per-table-index enumeration",
    "Every sequence of Encrypt/Decrypt calls (two objects, disjoint/in-place/long dst) up to the depth bound runs on real sm4 cipher objects and each result is compared with an independent, stateless SM4 whose S-box is derived algebraically; every byte value in every block and key position (drives every T-table entry), every single-bit block/key, key lengths 0..64.",
    "refsm4 (algebraic S-box, anchored on both GM/T 0002 vectors incl. the 1,000,000-iteration one)", "DESIGN.md §3 C05")
add("C11", "exploration",
    "exhaustive product enumeration (keys x IVs x every length x padding-lookalike tails x modes x spare capacities) against crypto/cipher modes over an independent SM4, with canary-guarded caller memory",
    "Complete product of a structured finite alphabet: every plaintext length 0..130 and 1008..1024 (thorough: 0..1024), every padding length, tails that look like padding, 3 IV settings, 4 modes, with the standard ciphertext decrypted by the helper and all caller memory (input, spare capacity, key, IV) compared afterwards.",
    "refsm4; Go crypto/cipher CBC/CFB/OFB as the standard definitions", "DESIGN.md §3 C11")
add("C12", "exploration",
    "exhaustive product enumeration ((|A|,|P|) grid, IV lengths 1..64 x patterns, every single-bit change, constructed counter-wrap IVs) against crypto/cipher GCM over an independent SM4",
    "Complete (|A|,|P|) grid for the 12-byte IV, every IV length 1..64 with five IV patterns and size classes, 0xff in every IV position, every single-bit change of IV/AAD/ciphertext/key for 60 shapes per key, IVs constructed by deterministic search so that the 32-bit counter wraps; ciphertext, tag, decryption and recomputed tag compared with NIST GCM over the reference SM4.",
    "Go crypto/cipher GCM (any nonce size) as SP 800-38D; refsm4", "DESIGN.md §3 C12")

add("C19", "model_checking",
    "deviation-bounded exhaustive exploration of environment answers (every short/zero/EOF-carrying read of the source, every write chunk size) on the real streaming reader/writer/block helpers against a byte-slice model",
    "The source reader's answers and the writer chunk sizes are choice points owned by the explorer; all executions with up to 2-4 deviations from the default answer (per length class), for every length in the stated ranges and block sizes 8 and 16, run on the real code and are compared with source||pad, the unpadded data, and CBC over an independent SM4; every invalid final-block pattern must be reported as an error.",
    "sources only fail with io.EOF; refsm4 + crypto/cipher CBC", "DESIGN.md §3 C19")

NA_REASON = "check not built yet in this session (work in progress; DESIGN.md §3 describes the planned bounded exhaustive check)"

def main():
    checks = []
    for i in ALL:
        if i not in CHECKS: continue
        c = CHECKS[i]
        checks.append({
            "property_id": i,
            "quick_cmd": f"./run.sh {i} quick",
            "thorough_cmd": f"./run.sh {i} thorough",
            "evidence_file": f"/verif/evidence/{i}.json",
            "replay_cmd_template": f"./run.sh {i} --replay {{path}}",
            "engine": "xp+harness",
            "level_claimed": {"category": c["level"], "text": c["text"], "design_ref": c["ref"]},
            "level_note": c["note"],
            "technique": c["technique"],
        })
    hooks_commits = []
    m = {
        "version": 1,
        "setup_cmd": "./setup.sh",
        "hooks": {
            "guard": "verif",
            "enable": "go build -tags verif (checks build /verif/mc against /repo via a replace directive; scheduler instrumentation for C20 is generated at run time with go build -overlay and never committed)",
            "baseline_off_cmd": "cd /repo && GOFLAGS=-mod=mod GOPROXY=off GOSUMDB=off GOTOOLCHAIN=local go test -vet=off -count=1 ./...",
            "source_commits": hooks_commits,
            "add_only": True,
        },
        "engines": [
            {"name": "xp+harness", "path": "/verif/mc", "serves_properties": sorted(CHECKS),
             "kind_free_text": "hand-written stateless explorer of choice points (deviation/depth bounded DFS with replay) over the real Go code, sharded over worker processes; independent reference models in mc/ref"},
        ],
        "checks": checks,
        "not_applicable": [{"property_id": i, "reason": NA_REASON} for i in ALL if i not in CHECKS],
        "notes": "All checks rebuild from /repo's working tree on every run (run.sh). known_findings.txt lists genuine defects recorded or fixed.",
    }
    json.dump(m, open("/verif/MANIFEST.json", "w"), indent=1)
    print("wrote MANIFEST.json with", len(checks), "checks")
main()
