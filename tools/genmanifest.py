#!/usr/bin/env python3
"""Generate /verif/MANIFEST.json from the table below (kept valid at all times)."""
import json, subprocess
ALL = ["C%02d" % i for i in range(1, 21)]
# id -> (level, technique, level text, level note, design ref)
CHECKS = {}
def add(i, level, technique, text, note, ref):
    CHECKS[i] = dict(level=level, technique=technique, text=text, note=note, ref=ref)

add("C04", "model_checking",
    "bounded exhaustive exploration of hash.Hash call histories (stateless DFS over all operation sequences to depth 5/6 on the real object, byte-slice reference model + independent SM3), exhaustive split/length enumeration",
    "Every operation sequence over {Write(10 chunk sizes), Sum(nil), Sum(prefix), Sum(prefix with capacity), Reset} up to the depth bound is executed on a real sm3.New() and compared step by step with a byte-slice model hashed by an independent GM/T 0004 implementation; every 2-split/3-split and one-shot length in the stated ranges; HMAC/PBKDF2 consumers. Within the bound this is a coverage statement, not a sample.",
    "refsm3 (independent transcription of GM/T 0004, anchored on the standard's vectors); message bytes are a fixed function of position", "DESIGN.md §3 C04")

add("C05", "model_checking",
    "bounded exhaustive exploration of Encrypt/Decrypt call histories on long-lived cipher objects (all sequences to depth 6/8 over 10 operations) against a stateless independent SM4, plus exhaustive per-table-index enumeration",
    "Every sequence of Encrypt/Decrypt calls (two objects, disjoint/in-place/long dst) up to the depth bound runs on real sm4 cipher objects and each result is compared with an independent, stateless SM4 whose S-box is derived algebraically; every byte value in every block and key position (drives every T-table entry), every single-bit block/key, key lengths 0..64.",
    "refsm4 (algebraic S-box, anchored on both GM/T 0002 vectors incl. the 1,000,000-iteration one)", "DESIGN.md §3 C05")
add("C11", "exploration",
    "exhaustive product enumeration (keys x IVs x every length x padding-lookalike tails x modes x spare capacities) against crypto/cipher modes over an independent SM4, with canary-guarded caller memory",
    "Complete product of a structured finite alphabet: every plaintext length 0..130 and 1008..1024 (thorough: 0..1024), every padding length, tails that look like padding, 3 IV settings, 4 modes, with the standard ciphertext decrypted by the helper and all caller memory (input, spare capacity, key, IV) compared afterwards.",
    "refsm4; Go crypto/cipher CBC/CFB/OFB as the standard definitions", "DESIGN.md §3 C11")
add("C12", "exploration",
    "exhaustive product enumeration ((|A|,|P|) grid, IV lengths 1..64 x patterns, every single-bit change, constructed counter-wrap IVs) against crypto/cipher GCM over an independent SM4",
    "Complete (|A|,|P|) grid for the 12-byte IV, every IV length 1..64 with five IV patterns and size classes, 0xff in every IV position, every single-bit change of IV/AAD/ciphertext/key for 60 shapes per key, IVs constructed by deterministic search so that the 32-bit counter wraps; ciphertext, tag, decryption and recomputed tag compared with NIST GCM over the reference SM4.",
    "Go crypto/cipher GCM (any nonce size) as SP 800-38D; refsm4", "DESIGN.md §3 C12")

add("C19", "model_checking",
    "deviation-bounded exhaustive exploration of environment answers (every short/zero/EOF-carrying read of the source, every write chunk size) on the real streaming reader/writer/block helpers against a byte-slice model",
    "The source reader's answers and the writer chunk sizes are choice points owned by the explorer; all executions with up to 2-4 deviations from the default answer (per length class), for every length in the stated ranges and block sizes 8 and 16, run on the real code and are compared with source||pad, the unpadded data, and CBC over an independent SM4; every invalid final-block pattern must be reported as an error.",
    "sources only fail with io.EOF; refsm4 + crypto/cipher CBC", "DESIGN.md §3 C19")

add("C01", "exploration",
    "exhaustive product enumeration (keys x message lengths x user IDs x scripted nonce streams; every single-field perturbation; catalogue of non-DER encodings) against an independent GM/T 0003.2 reference",
    "Complete product of structured alphabets (boundary and leading-zero keys found by deterministic search, 14 message lengths, 8 ID shapes, 9 nonce streams delivered through a scripted reader whose consumption is observed) for Sm2Sign/Sm2Verify/Verify/Sm3Digest/PrivateKey.Sign/PublicKey.Verify; acceptance of every single-field perturbation and of 24 malformed encodings decided by the reference verifier.",
    "refsm2/refsm3 anchored on the GM/T 0003.5 examples; retry branches of signing need an SM3 preimage and are not reachable", "DESIGN.md §3 C01")
add("C02", "exploration",
    "exhaustive product enumeration (keys x lengths x constructed nonces x 3 encodings, nonce-retry branch driven by searched nonces) plus fault enumeration (every byte substitution / truncation / invalid-curve C1 of order 2 and 3) against an independent GM/T 0003.4 reference",
    "Complete products for encryption conformance (byte-for-byte equality with the reference for the nonce supplied through a scripted reader, including nonces whose KDF output is all zero) and complete fault catalogues for rejection (single-byte substitutions, truncations, other key, invalid-curve points with ciphertexts built for every guess of d mod q).",
    "refsm2/refsm3 anchored on the GM/T 0003.5 examples; step budget on the random stream instead of a stop-watch", "DESIGN.md §3 C02")
add("C03", "model_checking",
    "explicit-state breadth-first search over curve points (state = discrete log, transitions = real Add/Double/ScalarMult on the implementation's own outputs) compared with affine reference arithmetic; exhaustive scalar and field-limb alphabets",
    "Explicit-state search to depth 5/6 over 18 operations from {infinity, G} with state matching on the discrete log (sound: the implementation's whole state is the affine pair, compared at every step), plus exhaustive alphabets: scalars (boundaries of n, 2^j, windows, every comb-table entry, leading zeros, 0..40 bytes) x 5 points, and every canonical field element whose Montgomery limbs are drawn from {0,1,max[-1]} in all 9 positions through IsOnCurve/Double/Add.",
    "refsm2 affine arithmetic over math/big; values off the alphabets are not covered (DESIGN §4)", "DESIGN.md §3 C03")
add("C13", "exploration",
    "exhaustive product enumeration (long-term keys x ephemeral keys x identity lengths x key lengths, searched short shared points, bad peer ephemerals) against an independent GM/T 0003.3 reference that reproduces the standard's worked example",
    "All 12x12x12 index combinations of the key alphabet for long-term and ephemeral keys with identity and key-length classes, both roles executed on the library; K, S1, S2 compared between the sides and with the reference; off-curve/infinite ephemerals and V=infinity must fail.",
    "refsm2 key exchange reproduces K, SB, SA of GM/T 0003.5", "DESIGN.md §3 C13")
add("C14", "exploration",
    "exhaustive product enumeration (key alphabet with forced leading-zero / odd-hex-digit values x every codec pair x passwords; wrong-password variants; all certificate/key pairs per TLS loader) with field-by-field comparison",
    "Every value of the structured alphabets through every offered encode/decode pair, every wrong-password variant refused, every (certificate, key) pair over 5 identities accepted by each loader iff matching.",
    "public points computed by refsm2; library-internal salts/IVs are not observed", "DESIGN.md §3 C14")

add("C09", "exploration",
    "exhaustive one-at-a-time product (58 template variations x 4 signer types x signature algorithms; CSRs; CRLs) with parse-back comparison and verification, plus fault enumeration over every byte of the signed part and signature value",
    "Every template variation over the documented fields, for SM2/RSA/P-256/P-384 signers and for the default and every same-family algorithm, is created, parsed back field by field, verified under the issuer and refuted under other keys; every single-byte change of TBS and signature of one certificate per signer must fail to parse or verify.",
    "issuer certificates for RSA/ECDSA come from Go's crypto/x509; library-internal signature randomness is not observed", "DESIGN.md §3 C09")
add("C10", "model_checking",
    "exhaustive enumeration of small PKI topologies (root subsets x intermediate subsets x leaves x insertion orders; leaves x times x host names x usages; constrained CAs) over real certificates, each Verify compared with a brute-force reference path validator on ground-truth descriptors",
    "All topologies within the bound over a universe of ~65 real SM2 certificates covering validity, CA bit, certSign, path length, forged signatures, cross-signing, same-name-other-key, loops and name constraints: Verify accepts iff the reference finds a path satisfying the statement, and every returned chain is checked link by link; rejections that depend on pool insertion order are minimised to the smallest failing topology.",
    "the reference implements exactly the statement's conditions; where the statement is silent the alphabet avoids the question (DESIGN §3 C10)", "DESIGN.md §3 C10")
add("C17", "exploration",
    "exhaustive product enumeration for enveloped/signed data and PKCS#12 (content lengths x algorithms x orderings x recipients; tamperings; passwords) plus fault enumeration over every byte and truncation of PKCS#12 bundles",
    "Every recipient recovers the content and every wrong holder (other key, non-recipient certificate, other ordering, wrong key type) gets an error; SM2 signed data built independently in the GM/T 0010 layout verifies and each of 8 tamperings is rejected; PKCS#12 bundles round-trip for 4 password shapes, every other password is refused and no byte change or truncation yields a different key or certificate.",
    "process-wide PKCS#7 content-encryption selector changed only between single-threaded units", "DESIGN.md §3 C17")
add("C18", "fault_enumeration",
    "fault enumeration exactly as the quantifier states (every truncation, 7 substitutions per byte, 5 length rewrites and 13 tag swaps per TLV, nesting depths, all 1- and 2-byte inputs) over a library-generated corpus for 26 decoder entry points, each call isolated with panic capture, allocation budget and watchdog",
    "Every fault of the catalogue at every position of every corpus entry is applied to every decoder; a call must return (value or error) without panic, within an allocation budget and a step/time budget re-checked five times; TLS message and ticket parsers are reached through real endpoints in the C15/C16 checks.",
    "password-KDF iteration counts are never mutated and password-based decoders are exempt from timing, as the statement allows", "DESIGN.md §3 C18")

add("C06", "model_checking",
    "exhaustive enumeration of the configuration product on real endpoints over a deterministic in-memory network, compared with a negotiation reference model; every captured GMSSL session re-decoded by an independent GM/T 0024 implementation; bounded exhaustive data-phase write histories",
    "Every configuration of the stated product (server mode x client kind x suite lists x preference x ClientAuth x client certificate x certificate source x tickets x TLS version x certificate type) is executed with real library endpoints (and Go's crypto/tls as the independent TLS peer in both roles); the model predicts completion, version and suite; both ends' views, exported keying material, peer certificates and delivered bytes are compared; GMSSL wire captures are decoded independently (pre-master secret decrypted with the reference SM2, master secret, key block, Finished, every record).",
    "gmrec/refsm2/refsm3/refsm4 as independent GMSSL decoder; crypto/tls as independent TLS implementation", "DESIGN.md §3 C06")
add("C07", "fault_enumeration",
    "fault enumeration at every protected record of a session: (a) record-aware man in the middle between two real endpoints (every structural fault and bit flip, layout from the independent decoder); (b) keyed reference peer (independent GM/T 0024 implementation gmref holding the session keys) sending self-protected records: every CBC padding length, every corrupted padding byte under a correct MAC, wrong sequence numbers/types under the right key, reflections, size limits; and authenticating every record the library sends",
    "One fault per run from the catalogue at every protected record of both directions for both GMSSL suites and both roles; what the receiver delivers must be a prefix of what was sent, nothing from the affected record on, ending with a fatal error (same alert for bad padding and bad MAC); all 256 padding lengths are delivered; every record written by the library for 600+ payload sizes authenticates under the reference with fresh IVs/nonces.",
    "sequence-number wrap is unreachable; gmref is built on refsm2/refsm3/refsm4 and validated against the library by the control cases", "DESIGN.md §3 C07")
add("C08", "fault_enumeration",
    "attacker catalogue enumerated exhaustively: malicious peers expressed through configuration x policies; a man in the middle editing every byte / dropping / duplicating / splicing / reordering every plaintext handshake message, on GMSSL and on TLS 1.2 against crypto/tls; and a keyed scripted peer (independent reference implementation gmref) whose Finished is always consistent so that only the identity proof is wrong",
    "Every listed malicious identity against a verifying client, every listed client identity under every ClientAuth policy against a server (acceptance predicted), every single-byte rewrite and structural edit of every handshake message in transit, and 50 scripted-server / 40 scripted-client proofs (ServerKeyExchange omitted / by other keys / over other randoms or certificates, CertificateVerify variants, pre-master-secret variants, 18 wrong Finished values): the attacked endpoint must abort and never both complete; genuine identities complete.",
    "gmref validated against the library by control cases in both roles", "DESIGN.md §3 C08")
add("C15", "model_checking",
    "deviation-bounded exploration of scripted handshakes: (a) every single deviation from the honest trace injected in transit at every message of both directions, end of stream after every record; (b) a keyed scripted peer (gmref) whose flights are edited - every omission, repetition, swap, insertion and replacement over an alphabet of 13-15 items (thorough: every pair of edits), every length/count field perturbation and truncation with a consistent transcript; (c) exhaustive first-flight spaces (every hello version 0x0000-0x0400 x suite lists x compression)",
    "For every server mode and client-auth setting the honest trace is the default and each deviation is applied at each message; conformance of an edited sequence is decided by the message grammar of the ECC suites. Never a panic, never an endpoint waiting after end of stream, never completion after a non-conformant sequence or malformed message, always completion of a conformant variant.",
    "conformant variations (warning alerts, HelloRequest to a client, re-fragmentation) are recorded, not judged", "DESIGN.md §3 C15")
add("C16", "model_checking",
    "bounded exhaustive exploration of connection/rotation/configuration histories on real Configs: library pairs (all sequences to depth 3/4 over 13 operations, rotation-focused variants to depth 4/6) against a resumption reference model; an independent resuming client (gmref, own key derivation and abbreviated handshake) in all histories to depth 4/5 over 8 operations; crypto/tls as the peer in each role (TLS 1.2, depth 5/7); fault enumeration over every byte/truncation of a ticket and authentic tickets with altered state",
    "Every history within the depth bound runs on real client and server configurations; the model (key rings, cache entries, policies) predicts MUST/MUST NOT/MAY resume for each connection and the observed DidResume, parameters, peer identity, exported keys and data are compared; a client without the master secret is never accepted; raw replays of a ticket-bearing ClientHello with every ticket byte changed never resume and never crash.",
    "resumption observed through DidResume and the shape of the server's first flight; gmref and crypto/tls are the independent peers", "DESIGN.md §3 C16")

add("C20", "model_checking",
    "stateless model checking of goroutine interleavings under a controlled cooperative scheduler with iterative preemption bounding (<=2/3 preemptions), scheduling points at every sync/atomic operation (shims) and at every statement of functions sharing plain memory (AST instrumentation via go build -overlay), including gmtls connections over an in-memory transport whose blocking is a scheduler wait; separate free-running pass under the race detector",
    "For each small colliding scenario (shared cipher objects incl. first use, package-level calls, BER parser, and on gmtls: Write/Write(/Write), Read/Write, Read/Read, Write/Close on one connection, Handshake/Handshake, two connections sharing their Configs with key rotation) every schedule within the bound is executed on the real code and the results are compared with the sequential outcomes (deadlock and step-budget detection included); the same and larger bodies run free under -race.",
    "scheduling points only where instrumented; races elsewhere are found by the -race pass, which is a dynamic detector over the executed bodies", "DESIGN.md §3 C20")

NA_REASON = "check not built yet in this session (work in progress; DESIGN.md §3 describes the planned bounded exhaustive check)"

def main():
    checks = []
    for i in ALL:
        if i not in CHECKS: continue
        c = CHECKS[i]
        checks.append({
            "property_id": i,
            "quick_cmd": f"./run.sh {i} quick",
            "thorough_cmd": f"./run.sh {i} thorough",
            "evidence_file": f"/verif/evidence/{i}.json",
            "replay_cmd_template": f"./run.sh {i} --replay {{path}}",
            "engine": "vsched+xp" if i == "C20" else "xp+harness",
            "level_claimed": {"category": c["level"], "text": c["text"], "design_ref": c["ref"]},
            "level_note": c["note"],
            "technique": c["technique"],
        })
    hooks_commits = []
    m = {
        "version": 1,
        "setup_cmd": "./setup.sh",
        "hooks": {
            "guard": "verif",
            "enable": "go build -tags verif (checks build /verif/mc against /repo via a replace directive; scheduler instrumentation for C20 is generated at run time with go build -overlay and never committed)",
            "baseline_off_cmd": "cd /repo && GOFLAGS=-mod=mod GOPROXY=off GOSUMDB=off GOTOOLCHAIN=local go test -vet=off -count=1 ./...",
            "source_commits": hooks_commits,
            "add_only": True,
        },
        "engines": [
            {"name": "vsched+xp", "path": "/verif/mc/vsched", "serves_properties": ["C20"],
             "kind_free_text": "hand-written controlled scheduler for goroutines: sync/atomic shims and statement-level scheduling points injected with go build -overlay (cmd/instr), iterative preemption bounding driven by the xp explorer, plus a free-running -race pass"},
            {"name": "xp+harness", "path": "/verif/mc", "serves_properties": sorted(k for k in CHECKS if k != "C20"),
             "kind_free_text": "hand-written stateless explorer of choice points (deviation/depth bounded DFS with replay) over the real Go code, sharded over worker processes; independent reference models in mc/ref"},
        ],
        "checks": checks,
        "not_applicable": [{"property_id": i, "reason": NA_REASON} for i in ALL if i not in CHECKS],
        "notes": "All checks rebuild from /repo's working tree on every run (run.sh). known_findings.txt lists genuine defects recorded or fixed.",
    }
    json.dump(m, open("/verif/MANIFEST.json", "w"), indent=1)
    print("wrote MANIFEST.json with", len(checks), "checks")
main()
