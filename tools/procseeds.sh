#!/bin/bash
# procseeds.sh name:Cxx ...: confirm each delivered seed in its scratch worktree, then try it against
# the quick check of its property.
cd /verif
for spec in "$@"; do
  n=${spec%%:*}; p=${spec##*:}
  r=$(./tools/confirm_seed.sh $n $p 2>&1 | tail -1); echo "== $n confirm: $r"
  if [ "$r" = CONFIRMED ]; then ./tools/tryseed.sh $n $p 2>&1 | head -3 | cut -c1-280; fi
done
