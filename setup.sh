#!/bin/bash
# setup.sh: run once after a fresh restore, offline. Warms the build cache and self-tests the
# reference models against the vectors of the standards. Nothing is left under /tmp.
set -eu
cd "$(dirname "$0")"
export GOFLAGS=-mod=mod GOPROXY=off GOSUMDB=off GOTOOLCHAIN=local
cd mc
cp /repo/go.sum ./go.sum 2>/dev/null || true
go build -tags verif -o /dev/null ./cmd/check
go test -count=1 ./ref/... ./xp/... 2>&1 | tail -20
echo "setup ok"
